package abi

import "math/big"

// Slot is one 32-byte word of an encoding that the decoder reads as an
// offset, a length or an element count, together with the sub-slice it is
// interpreted against: the decoder sees input = data[A:], and an offset is
// added to Start (32 behind the count word of a dynamically sized array, else 0).
type Slot struct {
	Word  int    // index of the 32-byte word in the whole encoding
	A     int    // absolute offset of the enclosing container / value
	Start int    // what the decoder adds to an offset read from this slot
	Kind  string // offset | length | count
	Width int    // count slots: bytes one element occupies in the head (static size, or 32 for an offset word)
}

// Layout walks a value exactly as Encode lays it out and returns every slot.
func Layout(n *Node, v *Val) []Slot {
	var slots []Slot
	layoutAt(n, v, 0, &slots)
	return slots
}

func layoutAt(n *Node, v *Val, abs int, slots *[]Slot) {
	switch n.Kind {
	case 'd':
		*slots = append(*slots, Slot{Word: abs / 32, A: abs, Start: 32, Kind: "length"})
	case 'a':
		ns := make([]*Node, len(v.Elems))
		for i := range ns {
			ns[i] = n.Elem
		}
		if n.K == 0 {
			w := 32
			if !n.Elem.Dynamic() {
				w = n.Elem.StaticSize()
			}
			*slots = append(*slots, Slot{Word: abs / 32, A: abs, Start: 32, Kind: "count", Width: w})
			layoutSeq(ns, v.Elems, abs+32, abs, 32, slots)
		} else {
			layoutSeq(ns, v.Elems, abs, abs, 0, slots)
		}
	case 't':
		layoutSeq(n.Fields, v.Elems, abs, abs, 0, slots)
	}
}

func layoutSeq(ns []*Node, vs []*Val, seqBase, container, start int, slots *[]Slot) {
	headLen := 0
	encs := make([][]byte, len(ns))
	for i := range ns {
		encs[i] = Encode(ns[i], vs[i])
		if ns[i].Dynamic() {
			headLen += 32
		} else {
			headLen += len(encs[i])
		}
	}
	headPos, tailOff := 0, headLen
	for i := range ns {
		if ns[i].Dynamic() {
			*slots = append(*slots, Slot{Word: (seqBase + headPos) / 32, A: container, Start: start, Kind: "offset"})
			layoutAt(ns[i], vs[i], seqBase+tailOff, slots)
			headPos += 32
			tailOff += len(encs[i])
		} else {
			layoutAt(ns[i], vs[i], seqBase+headPos, slots)
			headPos += len(encs[i])
		}
	}
}

// SlotValues: the boundary values of a slot relative to the sub-slice the
// decoder interprets it against (body = data[A:]).
func SlotValues(s Slot, total int) []uint64 {
	body := total - s.A
	cand := []int{body - s.Start - 1, body - s.Start, body - s.Start + 1, body - 33, body - 32, body - 31,
		body - 1, body, body + 1, body - 64, body - 63}
	seen := map[int]bool{}
	var out []uint64
	for _, c := range cand {
		if c >= 0 && !seen[c] {
			seen[c] = true
			out = append(out, uint64(c))
		}
	}
	return out
}

// StaticSize: head size in bytes of a static type.
func (n *Node) StaticSize() int {
	switch n.Kind {
	case 's':
		return 32
	case 'a':
		return n.K * n.Elem.StaticSize()
	case 't':
		t := 0
		for _, f := range n.Fields {
			t += f.StaticSize()
		}
		return t
	}
	return 0
}

// wrapSolutions: values v in [2^58, 2^63) with v*w = r (mod 2^64), a few per (w, r).
func wrapSolutions(w, r uint64, ks []uint64) []uint64 {
	if w == 0 {
		return nil
	}
	a := uint(0)
	for w&1 == 0 {
		w >>= 1
		a++
	}
	if a >= 6+58 || r&((uint64(1)<<a)-1) != 0 {
		return nil
	}
	bits := 64 - a
	mod := new(big.Int).Lsh(big.NewInt(1), bits)
	inv := new(big.Int).ModInverse(new(big.Int).SetUint64(w), mod)
	v0 := new(big.Int).Mul(new(big.Int).SetUint64(r>>a), inv)
	v0.Mod(v0, mod)
	var out []uint64
	for _, k := range ks {
		v := new(big.Int).Add(v0, new(big.Int).Mul(new(big.Int).SetUint64(k), mod))
		if v.BitLen() <= 63 && v.Cmp(new(big.Int).Lsh(big.NewInt(1), 58)) >= 0 {
			out = append(out, v.Uint64())
		}
	}
	return out
}

// WrapValues: "multiplicative wrap" values for a slot: a claimed count/length v
// whose product with an element width wraps modulo 2^64 to something that fits
// the remaining bytes; plus int / allocation sized values.
func WrapValues(s Slot, total int) []uint64 {
	rem := total - s.A - 32
	if rem < 0 {
		rem = 0
	}
	widths := []uint64{32}
	rs := []uint64{0, uint64(rem)}
	ks := []uint64{1}
	if s.Kind == "count" {
		widths = []uint64{32, 64, 96}
		if s.Width > 0 && s.Width != 32 && s.Width != 64 && s.Width != 96 {
			widths = append(widths, uint64(s.Width))
		}
		rs = []uint64{0, 32, uint64(rem), uint64(rem + 1)}
		if rem >= 32 {
			rs = append(rs, uint64(rem-32))
		}
		ks = []uint64{1, 3, 8, 15, 31}
	}
	seen := map[uint64]bool{}
	var out []uint64
	add := func(v uint64) {
		if !seen[v] {
			seen[v] = true
			out = append(out, v)
		}
	}
	for _, w := range widths {
		for _, r := range rs {
			sols := wrapSolutions(w, r, ks)
			if len(sols) > 2 && s.Kind == "count" {
				sols = []uint64{sols[0], sols[len(sols)-1]}
			}
			for _, v := range sols {
				add(v)
			}
		}
	}
	if s.Kind == "count" {
		for _, v := range []uint64{1 << 31, 1 << 32, 1<<32 + 1, 1 << 40, 1 << 58, 1 << 59, 1<<59 + 1, 1 << 60, 1 << 61, 1 << 62, 3 << 59} {
			add(v)
		}
	} else {
		for _, v := range []uint64{1 << 40, 1 << 59} {
			add(v)
		}
	}
	return out
}
