package abi

// Slot is one 32-byte word of an encoding that the decoder reads as an
// offset, a length or an element count, together with the sub-slice it is
// interpreted against: the decoder sees input = data[A:], and an offset is
// added to Start (32 behind the count word of a dynamically sized array, else 0).
type Slot struct {
	Word  int    // index of the 32-byte word in the whole encoding
	A     int    // absolute offset of the enclosing container / value
	Start int    // what the decoder adds to an offset read from this slot
	Kind  string // offset | length | count
}

// Layout walks a value exactly as Encode lays it out and returns every slot.
func Layout(n *Node, v *Val) []Slot {
	var slots []Slot
	layoutAt(n, v, 0, &slots)
	return slots
}

func layoutAt(n *Node, v *Val, abs int, slots *[]Slot) {
	switch n.Kind {
	case 'd':
		*slots = append(*slots, Slot{Word: abs / 32, A: abs, Start: 32, Kind: "length"})
	case 'a':
		ns := make([]*Node, len(v.Elems))
		for i := range ns {
			ns[i] = n.Elem
		}
		if n.K == 0 {
			*slots = append(*slots, Slot{Word: abs / 32, A: abs, Start: 32, Kind: "count"})
			layoutSeq(ns, v.Elems, abs+32, abs, 32, slots)
		} else {
			layoutSeq(ns, v.Elems, abs, abs, 0, slots)
		}
	case 't':
		layoutSeq(n.Fields, v.Elems, abs, abs, 0, slots)
	}
}

func layoutSeq(ns []*Node, vs []*Val, seqBase, container, start int, slots *[]Slot) {
	headLen := 0
	encs := make([][]byte, len(ns))
	for i := range ns {
		encs[i] = Encode(ns[i], vs[i])
		if ns[i].Dynamic() {
			headLen += 32
		} else {
			headLen += len(encs[i])
		}
	}
	headPos, tailOff := 0, headLen
	for i := range ns {
		if ns[i].Dynamic() {
			*slots = append(*slots, Slot{Word: (seqBase + headPos) / 32, A: container, Start: start, Kind: "offset"})
			layoutAt(ns[i], vs[i], seqBase+tailOff, slots)
			headPos += 32
			tailOff += len(encs[i])
		} else {
			layoutAt(ns[i], vs[i], seqBase+headPos, slots)
			headPos += len(encs[i])
		}
	}
}

// SlotValues: the boundary values of a slot relative to the sub-slice the
// decoder interprets it against (body = data[A:]).
func SlotValues(s Slot, total int) []uint64 {
	body := total - s.A
	cand := []int{body - s.Start - 1, body - s.Start, body - s.Start + 1, body - 33, body - 32, body - 31,
		body - 1, body, body + 1, body - 64, body - 63}
	seen := map[int]bool{}
	var out []uint64
	for _, c := range cand {
		if c >= 0 && !seen[c] {
			seen[c] = true
			out = append(out, uint64(c))
		}
	}
	return out
}
