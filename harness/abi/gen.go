package abi

import (
	"fmt"

	"verif/harness/lib"
)

// Gen generates event declarations and values; every choice comes from R.
type Gen struct {
	R        *lib.RNG
	MaxDepth int  // tuple nesting
	AllowOut bool // allow selected arrays inside tuples that are array elements
	MinArr   int  // lower bound on the length of every dynamically sized array value
	noSel    bool // (internal) nothing below may be selected
	ncol     int
	nname    int
}

var fixedKs = []int{1, 2, 3, 4, 5, 10, 11, 12, 21, 100}
var elemKinds = []string{"uint", "uint", "int", "address", "bool", "bytesN", "function", "bytes", "string", "bytes", "string"}

func (g *Gen) elem(sel bool) *Ty {
	t := &Ty{EKind: lib.Pick(g.R, elemKinds)}
	switch t.EKind {
	case "uint", "int":
		t.Bits = 8 * g.R.Range(1, 32)
		if g.R.Chance(1, 2) {
			t.Bits = 256
		}
	case "bytesN":
		t.Bits = g.R.Range(1, 32)
	}
	t.Sel = sel
	return t
}

func (g *Gen) dims(budget int) []int {
	var ds []int
	n := 0
	switch x := g.R.Intn(10); {
	case x < 4:
		n = 0
	case x < 8:
		n = 1
	case x < 9:
		n = 2
	default:
		n = 3
	}
	words := 1
	if budget < 1 {
		budget = 1
	}
	for i := 0; i < n; i++ {
		if g.R.Chance(1, 2) {
			ds = append(ds, 0)
			continue
		}
		k := lib.Pick(g.R, fixedKs)
		for words*k > budget {
			k = lib.Pick(g.R, fixedKs[:5])
			if words*k > budget {
				k = 1
			}
		}
		words *= k
		ds = append(ds, k)
	}
	return ds
}

// ty generates one input.  noSelArr: we are inside a tuple that is an array
// element (or deeper), where arrays must not be selected (domain of C09).
func (g *Gen) ty(depth int, noSelArr bool, budget int) *Ty {
	var t *Ty
	if depth < g.MaxDepth && g.R.Chance(1, 4) {
		t = &Ty{EKind: "tuple"}
		t.Dims = g.dims(budget / 4)
		inner := noSelArr || len(t.Dims) > 0
		if g.AllowOut {
			inner = false
		}
		// a tuple ARRAY below a tuple that is an array element: its leaves would be
		// selected arrays nested inside that tuple, so nothing inside may be selected
		saved := g.noSel
		if noSelArr && len(t.Dims) > 0 && !g.AllowOut {
			g.noSel = true
		}
		nc := g.R.Range(1, 4)
		for i := 0; i < nc; i++ {
			t.Comps = append(t.Comps, g.ty(depth+1, inner, budget/4))
		}
		g.noSel = saved
	} else {
		ds := g.dims(budget)
		sel := g.R.Chance(1, 2)
		if (noSelArr && len(ds) > 0) || g.noSel {
			sel = false
		}
		t = g.elem(sel)
		t.Dims = ds
	}
	t.Name = fmt.Sprintf("a%d", g.nname)
	g.nname++
	if t.Sel {
		t.Col = fmt.Sprintf("c%d", g.ncol)
		g.ncol++
	}
	return t
}

// Inputs generates the inputs of one event; at least one non-indexed input
// has a selected leaf when wantSel is set.
func (g *Gen) Inputs(wantSel bool) []*Ty {
	for {
		g.ncol, g.nname = 0, 0
		n := g.R.Range(1, 5)
		var ins []*Ty
		for i := 0; i < n; i++ {
			t := g.ty(0, false, 120)
			if g.R.Chance(1, 6) {
				t.Indexed = true
				clearSel(t)
			}
			ins = append(ins, t)
		}
		// column names must be consecutive after dropping indexed selections
		root, ncols := Tree(ins)
		if wantSel && ncols == 0 {
			continue
		}
		_ = root
		return ins
	}
}

func clearSel(t *Ty) {
	t.Sel, t.Col = false, ""
	for _, c := range t.Comps {
		clearSel(c)
	}
}

var dynLens = []int{0, 0, 1, 2, 31, 32, 33, 64, 65}

func (g *Gen) word() []byte {
	switch g.R.Intn(6) {
	case 0:
		return make([]byte, 32)
	case 1:
		return Word(uint64(g.R.Intn(1000)))
	case 2:
		b := make([]byte, 32)
		for i := range b {
			b[i] = 0xff
		}
		return b
	case 3: // address-like
		return append(make([]byte, 12), g.R.Bytes(20)...)
	}
	return g.R.Bytes(32)
}

// Value generates a value of the type; maxArr bounds dynamic array lengths.
func (g *Gen) Value(n *Node, maxArr int) *Val {
	switch n.Kind {
	case 's':
		return &Val{B: g.word()}
	case 'd':
		l := lib.Pick(g.R, dynLens)
		if g.R.Chance(1, 5) {
			l = g.R.Intn(100)
		}
		return &Val{B: g.R.Bytes(l)}
	case 'a':
		k := n.K
		if k == 0 {
			k = g.R.Intn(maxArr + 1)
			if g.R.Chance(1, 5) {
				k = 0
			}
			if k < g.MinArr {
				k = g.MinArr
			}
		}
		v := &Val{Elems: make([]*Val, k)}
		sub := maxArr
		if sub > 2 {
			sub--
		}
		for i := range v.Elems {
			v.Elems[i] = g.Value(n.Elem, sub)
		}
		return v
	case 't':
		v := &Val{Elems: make([]*Val, len(n.Fields))}
		for i, f := range n.Fields {
			v.Elems[i] = g.Value(f, maxArr)
		}
		return v
	}
	panic("kind")
}
