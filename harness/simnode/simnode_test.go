package simnode

import (
	"bytes"
	"encoding/json"
	"io"
	"net/http"
	"testing"
)

func post(t *testing.T, url string, body any) (int, []byte) {
	t.Helper()
	b, _ := json.Marshal(body)
	resp, err := http.Post(url, "application/json", bytes.NewReader(b))
	if err != nil {
		return -1, nil
	}
	defer resp.Body.Close()
	out, _ := io.ReadAll(resp.Body)
	return resp.StatusCode, out
}

func rq(method string, params ...any) map[string]any {
	return map[string]any{"jsonrpc": "2.0", "id": "1", "method": method, "params": params}
}

func TestNode(t *testing.T) {
	addr := []byte{1, 2, 3, 4}
	c := NewChain(Gen{Start: 10, N: 5, HashLen: 4, AddrLen: 4, Addrs: [][]byte{addr, {9, 9, 9, 9}}}, nil)
	n := New(c)
	defer n.Close()

	// latest / number / unknown
	var one struct {
		Result map[string]any `json:"result"`
	}
	_, b := post(t, n.URL(), rq("eth_getBlockByNumber", "latest", false))
	json.Unmarshal(b, &one)
	if one.Result["number"] != Qty(14) {
		t.Fatalf("latest = %v", one.Result["number"])
	}
	_, b = post(t, n.URL(), rq("eth_getBlockByNumber", Qty(99), true))
	if !bytes.Contains(b, []byte(`"result":null`)) {
		t.Fatalf("unknown block: %s", b)
	}
	// lag
	n.SetHead(12)
	_, b = post(t, n.URL(), rq("eth_getBlockByNumber", "latest", false))
	json.Unmarshal(b, &one)
	if one.Result["number"] != Qty(12) {
		t.Fatalf("lagging latest = %v", one.Result["number"])
	}
	_, b = post(t, n.URL(), rq("eth_getBlockByNumber", Qty(13), false))
	if !bytes.Contains(b, []byte(`"result":null`)) {
		t.Fatalf("block above head: %s", b)
	}
	n.ClearHead()

	// eth_getLogs applies the address filter; batch in request order
	var batch []struct {
		Result json.RawMessage `json:"result"`
	}
	_, b = post(t, n.URL(), []any{
		rq("eth_getBlockByNumber", Qty(11), false),
		rq("eth_getLogs", map[string]any{"fromBlock": Qty(10), "toBlock": Qty(11), "address": []string{Hex(addr)}, "topics": nil}),
	})
	json.Unmarshal(b, &batch)
	var logs []map[string]any
	json.Unmarshal(batch[1].Result, &logs)
	want := 0
	for _, blk := range c.Blocks[:2] {
		for _, tx := range blk.Txs {
			for _, l := range tx.Logs {
				if bytes.Equal(l.Address, addr) {
					want++
				}
			}
		}
	}
	if len(logs) != want || want == 0 {
		t.Fatalf("filtered logs: got %d want %d", len(logs), want)
	}
	for _, l := range logs {
		if l["address"] != Hex(addr) {
			t.Fatalf("log with address %v passed the filter", l["address"])
		}
	}

	// versions: a fork shares the prefix and differs from the fork point on
	f := Fork(c, 12, 4, Gen{HashLen: 4, AddrLen: 4, Salt: 7})
	v := n.AddChain(f)
	if !bytes.Equal(f.Block(11).Hash, c.Block(11).Hash) || bytes.Equal(f.Block(12).Hash, c.Block(12).Hash) ||
		!bytes.Equal(f.Block(12).Parent, c.Block(11).Hash) || f.Head() != 15 {
		t.Fatalf("fork shape")
	}
	n.SetChain(v)
	_, b = post(t, n.URL(), rq("eth_getBlockByNumber", Qty(12), false))
	json.Unmarshal(b, &one)
	if one.Result["hash"] != Hex(f.Block(12).Hash) {
		t.Fatalf("version switch")
	}

	// failure injection and corruption keyed by content; recording
	n.Reset()
	n.Pre(func(x *Exchange) {
		if x.Kind() == "receipts" {
			x.Status = 503
		}
	})
	n.Post(PostHook(Corruption{OnKind: "traces", Kind: "null-result"}))
	st, _ := post(t, n.URL(), []any{rq("eth_getBlockReceipts", Qty(12))})
	if st != 503 {
		t.Fatalf("status %d", st)
	}
	_, b = post(t, n.URL(), rq("trace_block", Qty(12)))
	if !bytes.Contains(b, []byte(`"result":null`)) {
		t.Fatalf("corruption not applied: %s", b)
	}
	if n.MethodCounts()["trace_block"] != 1 || n.Counts()[`eth_getBlockReceipts["0xc"]`] != 1 || len(n.Requests()) != 2 {
		t.Fatalf("recording: %v %v", n.MethodCounts(), n.Counts())
	}
	// Probe: no traffic, no recording, hooks applied
	s := n.Probe(false, Req("trace_block", Qty(12)))
	if !bytes.Contains(s.Body, []byte(`"result":null`)) || len(n.Requests()) != 2 {
		t.Fatalf("probe")
	}
	// every enumerated corruption applies to the honest exchange it was enumerated for
	n.Pre(nil)
	n.Post(nil)
	h := n.Probe(true, Req("eth_getBlockReceipts", Qty(12)), Req("eth_getBlockReceipts", Qty(13)))
	for _, c := range Enumerate(h.X, 12, 2) {
		x := n.Probe(true, Req("eth_getBlockReceipts", Qty(12)), Req("eth_getBlockReceipts", Qty(13)))
		if !c.Matches(x.X) || !c.Apply(x.X) {
			t.Fatalf("%v does not apply", c)
		}
	}
}
