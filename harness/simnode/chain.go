// Package simnode is a scripted Ethereum JSON-RPC node for the correspondence
// drivers: an in-memory chain (or a sequence of chain versions) served over
// net/http with request recording, lag, response corruption and failure
// injection.  See README.md.
package simnode

import (
	"fmt"
	"strings"
)

// Log is one event log.  Idx is the block-wide log index.
type Log struct {
	Idx     uint64
	Address []byte
	Topics  [][]byte
	Data    []byte
}

// Trace is one trace_block entry of a transaction (call action).
type Trace struct {
	From, To []byte
	CallType string
	Value    uint64
}

// Tx carries the transaction fields of eth_getBlockByNumber(full=true), the
// receipt fields of eth_getBlockReceipts, its logs and its traces.
type Tx struct {
	Idx      uint64
	Hash     []byte
	Type     byte
	From, To []byte
	Nonce    uint64
	GasPrice uint64
	Gas      uint64
	Value    uint64
	Input    []byte
	V, R, S  uint64
	ChainID  uint64
	MaxPrio  uint64 // maxPriorityFeePerGas
	MaxFee   uint64 // maxFeePerGas

	Status            byte
	GasUsed           uint64
	EffectiveGasPrice uint64
	ContractAddress   []byte

	Logs   []Log
	Traces []Trace
}

type Block struct {
	Num       uint64
	Hash      []byte
	Parent    []byte
	LogsBloom []byte
	Time      uint64
	Txs       []Tx
}

// Chain is a run of consecutive blocks; Blocks[i].Num == Blocks[0].Num + i.
type Chain struct {
	Blocks []Block
}

func (c *Chain) First() uint64 { return c.Blocks[0].Num }
func (c *Chain) Head() uint64  { return c.Blocks[len(c.Blocks)-1].Num }

// Block returns the block numbered n or nil.
func (c *Chain) Block(n uint64) *Block {
	if c == nil || len(c.Blocks) == 0 || n < c.First() || n > c.Head() {
		return nil
	}
	return &c.Blocks[n-c.First()]
}

// Gen describes a generated chain.  Every field of every item receives a
// distinct non-zero value drawn from one counter, so that a value found in the
// wrong place, or a zero default, is recognisable.
type Gen struct {
	Start, N uint64
	// Shape tells how many transactions block bn has and, for transaction ti,
	// how many logs and traces.  nil: 2 transactions, 2 logs and 1 trace each.
	Shape func(bn uint64) (txs int, logs func(ti int) int, traces func(ti int) int)
	// HashLen is the byte length of block and transaction hashes (default 32;
	// the client accepts any length, short hashes keep Coq case terms small).
	HashLen int
	// AddrLen is the byte length of addresses (default 20).
	AddrLen int
	// Salt separates the value spaces of different chains / forks.
	Salt uint64
	// Topics0 is used as topic[0] of the logs, round robin (default: distinct values).
	Topics0 [][]byte
	// Addrs is used as log address, round robin (default: distinct values).
	Addrs [][]byte
	// NTopics is the number of topics per log (default 2).
	NTopics int
	// DataLen is the length of log data and tx input (default 4; log data 0 is allowed with DataLen<0).
	DataLen int
}

type counter struct {
	salt uint64
	n    uint64
}

func (c *counter) next() uint64 { c.n++; return c.salt<<24 | c.n }

// small returns a distinct value below 2^16 (fields stored in 8..32 bit columns).
func (c *counter) bytes(k int) []byte {
	v := c.next()
	b := make([]byte, k)
	for i := k - 1; i >= 0; i-- {
		b[i] = byte(v)
		v >>= 8
	}
	if k > 0 && b[0] == 0 {
		b[0] = 0x80 | byte(k) // never a leading zero: every spelling distinct and non-zero
	}
	return b
}

// NewChain generates the chain described by g.  parent is the hash of the
// block before g.Start (nil: generated).
func NewChain(g Gen, parent []byte) *Chain {
	if g.HashLen == 0 {
		g.HashLen = 32
	}
	if g.AddrLen == 0 {
		g.AddrLen = 20
	}
	if g.NTopics == 0 {
		g.NTopics = 2
	}
	if g.DataLen == 0 {
		g.DataLen = 4
	}
	ctr := &counter{salt: g.Salt + 1}
	c := &Chain{}
	if parent == nil {
		parent = ctr.bytes(g.HashLen)
	}
	logIdx := uint64(0)
	nlog := 0
	for i := uint64(0); i < g.N; i++ {
		bn := g.Start + i
		b := Block{Num: bn, Hash: ctr.bytes(g.HashLen), Parent: parent, LogsBloom: ctr.bytes(8), Time: ctr.next()}
		parent = b.Hash
		ntx, nlogs, ntraces := 2, func(int) int { return 2 }, func(int) int { return 1 }
		if g.Shape != nil {
			ntx, nlogs, ntraces = g.Shape(bn)
		}
		logIdx = 0
		for ti := 0; ti < ntx; ti++ {
			tx := Tx{
				Idx: uint64(ti), Hash: ctr.bytes(g.HashLen), Type: byte(1 + ctr.next()%2),
				From: ctr.bytes(g.AddrLen), To: ctr.bytes(g.AddrLen),
				Nonce: ctr.next(), GasPrice: ctr.next(), Gas: ctr.next(), Value: ctr.next(),
				V: ctr.next(), R: ctr.next(), S: ctr.next(), ChainID: ctr.next(),
				MaxPrio: ctr.next(), MaxFee: ctr.next(),
				Status: byte(1 + ctr.next()%250), GasUsed: ctr.next(), EffectiveGasPrice: ctr.next(),
				ContractAddress: ctr.bytes(g.AddrLen),
			}
			if g.DataLen > 0 {
				tx.Input = ctr.bytes(g.DataLen)
			}
			nl, nt := 0, 0
			if nlogs != nil {
				nl = nlogs(ti)
			}
			if ntraces != nil {
				nt = ntraces(ti)
			}
			for li := 0; li < nl; li++ {
				l := Log{Idx: logIdx}
				logIdx++
				if len(g.Addrs) > 0 {
					l.Address = g.Addrs[nlog%len(g.Addrs)]
				} else {
					l.Address = ctr.bytes(g.AddrLen)
				}
				for k := 0; k < g.NTopics; k++ {
					if k == 0 && len(g.Topics0) > 0 {
						l.Topics = append(l.Topics, g.Topics0[nlog%len(g.Topics0)])
					} else {
						l.Topics = append(l.Topics, ctr.bytes(g.HashLen))
					}
				}
				if g.DataLen > 0 {
					l.Data = ctr.bytes(g.DataLen)
				}
				nlog++
				tx.Logs = append(tx.Logs, l)
			}
			for k := 0; k < nt; k++ {
				tx.Traces = append(tx.Traces, Trace{
					From: ctr.bytes(g.AddrLen), To: ctr.bytes(g.AddrLen),
					CallType: []string{"call", "delegatecall", "staticcall"}[k%3], Value: ctr.next(),
				})
			}
			b.Txs = append(b.Txs, tx)
		}
		c.Blocks = append(c.Blocks, b)
	}
	return c
}

// Fork returns a chain that shares c's blocks below `at` and continues with n
// freshly generated blocks (different hashes and contents) from `at` on.
func Fork(c *Chain, at uint64, n uint64, g Gen) *Chain {
	res := &Chain{}
	for i := range c.Blocks {
		if c.Blocks[i].Num < at {
			res.Blocks = append(res.Blocks, c.Blocks[i])
		}
	}
	var parent []byte
	if len(res.Blocks) > 0 {
		parent = res.Blocks[len(res.Blocks)-1].Hash
	}
	g.Start, g.N = at, n
	tail := NewChain(g, parent)
	res.Blocks = append(res.Blocks, tail.Blocks...)
	return res
}

// Hex spells a byte string as 0x-prefixed data.
func Hex(b []byte) string { return fmt.Sprintf("0x%x", b) }

// Qty spells a number as a 0x-prefixed quantity.
func Qty(n uint64) string { return fmt.Sprintf("0x%x", n) }

// ParseQty reads a quantity spelled by Qty (or any 0x-hex number).
func ParseQty(s string) (uint64, bool) {
	s = strings.TrimPrefix(strings.TrimPrefix(s, "0x"), "0X")
	if s == "" || len(s) > 16 {
		return 0, false
	}
	var n uint64
	for i := 0; i < len(s); i++ {
		c := s[i]
		switch {
		case c >= '0' && c <= '9':
			n = n<<4 | uint64(c-'0')
		case c >= 'a' && c <= 'f':
			n = n<<4 | uint64(c-'a'+10)
		case c >= 'A' && c <= 'F':
			n = n<<4 | uint64(c-'A'+10)
		default:
			return 0, false
		}
	}
	return n, true
}

// ParseHex reads 0x-prefixed data.
func ParseHex(s string) []byte {
	s = strings.TrimPrefix(s, "0x")
	if len(s)%2 == 1 {
		s = "0" + s
	}
	b := make([]byte, len(s)/2)
	for i := range b {
		var v byte
		for j := 0; j < 2; j++ {
			c := s[2*i+j]
			switch {
			case c >= '0' && c <= '9':
				v = v<<4 | (c - '0')
			case c >= 'a' && c <= 'f':
				v = v<<4 | (c - 'a' + 10)
			case c >= 'A' && c <= 'F':
				v = v<<4 | (c - 'A' + 10)
			}
		}
		b[i] = v
	}
	return b
}
