package simnode

import (
	"bytes"
	"encoding/json"
	"fmt"
	"io"
	"net"
	"net/http"
	"net/http/httptest"
	"sort"
	"strings"
	"sync"
)

// Obj is a JSON object of a response; values are string, uint64 (JSON number),
// bool, nil, []any or Obj.  Hooks edit these trees before they are written.
type Obj = map[string]any

// Request is one JSON-RPC request as received.
type Request struct {
	ID     json.RawMessage
	Method string
	Params []any // decoded generically (encoding/json)
}

// Key identifies the request by content: method(params-json).
func (r Request) Key() string {
	p, _ := json.Marshal(r.Params)
	return r.Method + string(p)
}

// RPCError is the error member of a response.
type RPCError struct {
	Code    int    `json:"code"`
	Message string `json:"message"`
	Data    any    `json:"data,omitempty"`
}

// Response is one element of the reply, still as a tree.
type Response struct {
	ID     json.RawMessage
	Result any       // nil => "result": null
	Error  *RPCError // nil => no error member
	// NoResult omits the result member altogether; Raw, when set, is written
	// verbatim in place of the whole response object (e.g. `null`).
	NoResult bool
	Raw      json.RawMessage
}

func (r *Response) MarshalJSON() ([]byte, error) {
	if r.Raw != nil {
		return r.Raw, nil
	}
	o := Obj{"jsonrpc": "2.0", "id": r.ID}
	if !r.NoResult {
		o["result"] = r.Result
	}
	if r.Error != nil {
		o["error"] = r.Error
	}
	return json.Marshal(o)
}

// Exchange is one HTTP request/response pair.  The Pre hook sees it before the
// honest responses are computed (it may change Version, Head, Status, Abort);
// the Post hook sees it with Resps filled in and may mutate anything.
type Exchange struct {
	Batch   bool
	Reqs    []Request
	Resps   []*Response
	Version int     // chain version that answers
	Head    *uint64 // highest block this node "has"; nil = the chain's head
	Status  int     // HTTP status (default 200)
	Abort   bool    // close the connection without any reply
	// Keep, when >= 0, writes only the first Keep bytes of the body.
	Keep int
	// Body, when non-nil after Post, is written instead of the marshalled Resps.
	Body []byte
	// Garbled is set by corruptions that make the body undecodable for the
	// client although it is syntactically valid JSON (bad hex etc.).
	Garbled bool
}

// Key identifies the exchange by the content of its requests.
func (x *Exchange) Key() string {
	ks := make([]string, len(x.Reqs))
	for i := range x.Reqs {
		ks[i] = x.Reqs[i].Key()
	}
	return strings.Join(ks, ";")
}

// Methods lists the request methods in order.
func (x *Exchange) Methods() []string {
	ms := make([]string, len(x.Reqs))
	for i := range x.Reqs {
		ms[i] = x.Reqs[i].Method
	}
	return ms
}

// Kind classifies the exchange by what the shovel client asks with it:
// "blocks" (batch of full blocks), "headers" (batch of headers), "receipts",
// "logs" (header + eth_getLogs), "traces" (single trace_block), "latest",
// "hash" (single full block), "other".
func (x *Exchange) Kind() string {
	if len(x.Reqs) == 0 {
		return "other"
	}
	m0 := x.Reqs[0].Method
	switch {
	case !x.Batch && m0 == "trace_block":
		return "traces"
	case !x.Batch && m0 == "eth_getBlockByNumber":
		if len(x.Reqs[0].Params) > 0 && x.Reqs[0].Params[0] == "latest" {
			return "latest"
		}
		return "hash"
	case x.Batch && len(x.Reqs) == 2 && x.Reqs[1].Method == "eth_getLogs":
		return "logs"
	case x.Batch && m0 == "eth_getBlockReceipts":
		return "receipts"
	case x.Batch && m0 == "eth_getBlockByNumber":
		if len(x.Reqs[0].Params) > 1 && x.Reqs[0].Params[1] == true {
			return "blocks"
		}
		return "headers"
	}
	return "other"
}

// Sent is what actually went over the wire for one exchange.
type Sent struct {
	Key    string
	Kind   string
	Status int
	Body   []byte
	X      *Exchange // after the Post hook
}

// Node is the scripted JSON-RPC server.
type Node struct {
	mu       sync.Mutex
	srv      *httptest.Server
	versions []*Chain
	cur      int
	head     *uint64
	pre      func(x *Exchange)
	post     func(x *Exchange)
	reqs     []Request
	counts   map[string]int
	sent     []Sent
	keepSent bool
}

// New starts a node serving chain version 0 = c (c may be nil; add versions later).
func New(c *Chain) *Node {
	n := &Node{counts: map[string]int{}}
	if c != nil {
		n.versions = append(n.versions, c)
	}
	n.srv = httptest.NewServer(http.HandlerFunc(n.serve))
	return n
}

func (n *Node) Close() { n.srv.CloseClientConnections(); n.srv.Close() }

// URL of the node.  Append "/nocache" (any path containing "nocache") to make a
// jrpc2.Client bypass its block caches; "debug" must be avoided.
func (n *Node) URL() string { return n.srv.URL }

// AddChain appends a chain version and returns its index.
func (n *Node) AddChain(c *Chain) int {
	n.mu.Lock()
	defer n.mu.Unlock()
	n.versions = append(n.versions, c)
	return len(n.versions) - 1
}

// SetChain selects the version that answers subsequent requests.
func (n *Node) SetChain(version int) {
	n.mu.Lock()
	n.cur = version
	n.mu.Unlock()
}

// Chain returns version v.
func (n *Node) Chain(v int) *Chain {
	n.mu.Lock()
	defer n.mu.Unlock()
	return n.versions[v]
}

// SetHead makes the node lag: blocks above num are "not there yet" (null
// header/block/receipts/traces, no logs); "latest" is block num.  ClearHead undoes it.
func (n *Node) SetHead(num uint64) {
	n.mu.Lock()
	n.head = &num
	n.mu.Unlock()
}
func (n *Node) ClearHead() {
	n.mu.Lock()
	n.head = nil
	n.mu.Unlock()
}

// Pre installs the hook run before the honest responses are computed
// (version/lag/failure per request, keyed by x.Key()/x.Kind()).
func (n *Node) Pre(f func(x *Exchange)) {
	n.mu.Lock()
	n.pre = f
	n.mu.Unlock()
}

// Post installs the corruption hook run on the honest responses.
func (n *Node) Post(f func(x *Exchange)) {
	n.mu.Lock()
	n.post = f
	n.mu.Unlock()
}

// Requests returns every request received so far, in arrival order.
func (n *Node) Requests() []Request {
	n.mu.Lock()
	defer n.mu.Unlock()
	return append([]Request(nil), n.reqs...)
}

// Counts returns how often each request (by content key) was received.
func (n *Node) Counts() map[string]int {
	n.mu.Lock()
	defer n.mu.Unlock()
	res := map[string]int{}
	for k, v := range n.counts {
		res[k] = v
	}
	return res
}

// MethodCounts returns how often each method was received.
func (n *Node) MethodCounts() map[string]int {
	n.mu.Lock()
	defer n.mu.Unlock()
	res := map[string]int{}
	for _, r := range n.reqs {
		res[r.Method]++
	}
	return res
}

// Reset forgets recorded requests and sent replies.
func (n *Node) Reset() {
	n.mu.Lock()
	n.reqs, n.sent, n.counts = nil, nil, map[string]int{}
	n.mu.Unlock()
}

// KeepSent makes the node remember every reply (Sent()).
func (n *Node) KeepSent(on bool) {
	n.mu.Lock()
	n.keepSent = on
	n.mu.Unlock()
}

// Sent returns the replies written so far (only with KeepSent(true)).
func (n *Node) Sent() []Sent {
	n.mu.Lock()
	defer n.mu.Unlock()
	return append([]Sent(nil), n.sent...)
}

func (n *Node) serve(w http.ResponseWriter, r *http.Request) {
	body, _ := io.ReadAll(r.Body)
	x := &Exchange{Status: 200, Keep: -1}
	type wireReq struct {
		ID     json.RawMessage `json:"id"`
		Method string          `json:"method"`
		Params []any           `json:"params"`
	}
	var wrs []wireReq
	trimmed := bytes.TrimSpace(body)
	if len(trimmed) > 0 && trimmed[0] == '[' {
		x.Batch = true
		if err := json.Unmarshal(trimmed, &wrs); err != nil {
			http.Error(w, "bad request", 400)
			return
		}
	} else {
		var one wireReq
		if err := json.Unmarshal(trimmed, &one); err != nil {
			http.Error(w, "bad request", 400)
			return
		}
		wrs = []wireReq{one}
	}
	for _, q := range wrs {
		x.Reqs = append(x.Reqs, Request{ID: q.ID, Method: q.Method, Params: q.Params})
	}

	out := n.process(x, true)
	if x.Abort {
		if hj, ok := w.(http.Hijacker); ok {
			if conn, _, err := hj.Hijack(); err == nil {
				if tc, ok := conn.(*net.TCPConn); ok {
					tc.SetLinger(0)
				}
				conn.Close()
				return
			}
		}
		panic(http.ErrAbortHandler)
	}
	w.Header().Set("content-type", "application/json")
	w.WriteHeader(x.Status)
	w.Write(out)
}

// process runs one exchange through Pre, the honest answers and Post and
// returns the bytes to write.
func (n *Node) process(x *Exchange, record bool) []byte {
	n.mu.Lock()
	if record {
		n.reqs = append(n.reqs, x.Reqs...)
		for _, q := range x.Reqs {
			n.counts[q.Key()]++
		}
	}
	x.Version = n.cur
	if n.head != nil {
		h := *n.head
		x.Head = &h
	}
	pre, post := n.pre, n.post
	n.mu.Unlock()

	if pre != nil {
		pre(x)
	}
	if !x.Abort {
		n.mu.Lock()
		var c *Chain
		if x.Version >= 0 && x.Version < len(n.versions) {
			c = n.versions[x.Version]
		}
		n.mu.Unlock()
		for _, q := range x.Reqs {
			x.Resps = append(x.Resps, Answer(c, x.Head, q))
		}
		if post != nil {
			post(x)
		}
	}
	var out []byte
	if !x.Abort {
		switch {
		case x.Body != nil:
			out = x.Body
		case x.Batch:
			out, _ = json.Marshal(x.Resps)
		case len(x.Resps) > 0:
			out, _ = json.Marshal(x.Resps[0])
		default:
			out = []byte("null")
		}
		if x.Keep >= 0 && x.Keep < len(out) {
			out = out[:x.Keep]
		}
	}
	if record {
		n.mu.Lock()
		if n.keepSent {
			n.sent = append(n.sent, Sent{Key: x.Key(), Kind: x.Kind(), Status: x.Status, Body: out, X: x})
		}
		n.mu.Unlock()
	}
	return out
}

// Probe tells what the node would reply to the given requests right now
// (hooks included) without any HTTP traffic and without recording them.
func (n *Node) Probe(batch bool, reqs ...Request) Sent {
	x := &Exchange{Status: 200, Keep: -1, Batch: batch, Reqs: reqs}
	out := n.process(x, false)
	return Sent{Key: x.Key(), Kind: x.Kind(), Status: x.Status, Body: out, X: x}
}

// Req builds a request for Probe.
func Req(method string, params ...any) Request {
	return Request{ID: json.RawMessage(`"probe"`), Method: method, Params: params}
}

// Answer computes the honest response of chain c (seen up to head) to q.
func Answer(c *Chain, head *uint64, q Request) *Response {
	resp := &Response{ID: q.ID}
	top := uint64(0)
	have := c != nil && len(c.Blocks) > 0
	if have {
		top = c.Head()
		if head != nil && *head < top {
			top = *head
		}
		if head != nil && *head < c.First() {
			have = false
		}
	}
	block := func(tag any) *Block {
		s, _ := tag.(string)
		if !have {
			return nil
		}
		if s == "latest" {
			return c.Block(top)
		}
		n, ok := ParseQty(s)
		if !ok || n > top {
			return nil
		}
		return c.Block(n)
	}
	param := func(i int) any {
		if i < len(q.Params) {
			return q.Params[i]
		}
		return nil
	}
	switch q.Method {
	case "eth_getBlockByNumber":
		b := block(param(0))
		if b == nil {
			return resp
		}
		full, _ := param(1).(bool)
		resp.Result = BlockJSON(b, full)
	case "eth_getBlockReceipts":
		b := block(param(0))
		if b == nil {
			return resp
		}
		resp.Result = ReceiptsJSON(b)
	case "trace_block":
		b := block(param(0))
		if b == nil {
			return resp
		}
		resp.Result = TracesJSON(b)
	case "eth_getLogs":
		f, _ := param(0).(map[string]any)
		from, _ := ParseQty(str(f["fromBlock"]))
		to, ok := ParseQty(str(f["toBlock"]))
		if !ok {
			to = top
		}
		logs := []any{}
		if have {
			addrs := addrFilter(f["address"])
			topics := topicFilter(f["topics"])
			for n := from; n <= to && n <= top; n++ {
				b := c.Block(n)
				if b == nil {
					continue
				}
				for ti := range b.Txs {
					for li := range b.Txs[ti].Logs {
						l := &b.Txs[ti].Logs[li]
						if matchLog(l, addrs, topics) {
							logs = append(logs, LogJSON(b, &b.Txs[ti], l))
						}
					}
				}
			}
		}
		resp.Result = logs
	default:
		resp.NoResult = true
		resp.Error = &RPCError{Code: -32601, Message: "method not found"}
	}
	return resp
}

func str(v any) string { s, _ := v.(string); return s }

func addrFilter(v any) []string {
	var res []string
	switch a := v.(type) {
	case string:
		res = append(res, strings.ToLower(a))
	case []any:
		for _, e := range a {
			if s, ok := e.(string); ok {
				res = append(res, strings.ToLower(s))
			}
		}
	}
	return res
}

// topicFilter: position -> accepted values (nil = wildcard).
func topicFilter(v any) [][]string {
	a, ok := v.([]any)
	if !ok {
		return nil
	}
	res := make([][]string, len(a))
	for i, e := range a {
		switch t := e.(type) {
		case string:
			res[i] = []string{strings.ToLower(t)}
		case []any:
			for _, s := range t {
				if ss, ok := s.(string); ok {
					res[i] = append(res[i], strings.ToLower(ss))
				}
			}
		}
	}
	return res
}

func matchLog(l *Log, addrs []string, topics [][]string) bool {
	if len(addrs) > 0 {
		ok := false
		for _, a := range addrs {
			if a == Hex(l.Address) {
				ok = true
			}
		}
		if !ok {
			return false
		}
	}
	for i, want := range topics {
		if len(want) == 0 {
			continue
		}
		if i >= len(l.Topics) {
			return false
		}
		ok := false
		for _, t := range want {
			if t == Hex(l.Topics[i]) {
				ok = true
			}
		}
		if !ok {
			return false
		}
	}
	return true
}

// HeaderJSON / BlockJSON / ReceiptsJSON / LogJSON / TracesJSON spell chain
// items the way a node does (the subset of members the client reads, plus a
// few it ignores).
func BlockJSON(b *Block, full bool) Obj {
	o := Obj{
		"number":     Qty(b.Num),
		"hash":       Hex(b.Hash),
		"parentHash": Hex(b.Parent),
		"logsBloom":  Hex(b.LogsBloom),
		"timestamp":  Qty(b.Time),
		"miner":      "0x00",
	}
	txs := []any{}
	for i := range b.Txs {
		t := &b.Txs[i]
		if full {
			txs = append(txs, Obj{
				"blockHash":            Hex(b.Hash),
				"blockNumber":          Qty(b.Num),
				"transactionIndex":     Qty(t.Idx),
				"hash":                 Hex(t.Hash),
				"type":                 Qty(uint64(t.Type)),
				"chainId":              Qty(t.ChainID),
				"nonce":                Qty(t.Nonce),
				"gasPrice":             Qty(t.GasPrice),
				"gas":                  Qty(t.Gas),
				"from":                 Hex(t.From),
				"to":                   Hex(t.To),
				"value":                Qty(t.Value),
				"input":                Hex(t.Input),
				"v":                    Qty(t.V),
				"r":                    Qty(t.R),
				"s":                    Qty(t.S),
				"maxPriorityFeePerGas": Qty(t.MaxPrio),
				"maxFeePerGas":         Qty(t.MaxFee),
			})
		} else {
			txs = append(txs, Hex(t.Hash))
		}
	}
	if full {
		o["transactions"] = txs
	}
	// a header response (full=false) of a real node lists transaction hashes;
	// the client decodes it into eth.Header, which has no such member, so it is
	// left out here to keep the trees small.
	return o
}

func logObj(b *Block, t *Tx, l *Log) Obj {
	topics := []any{}
	for _, tp := range l.Topics {
		topics = append(topics, Hex(tp))
	}
	return Obj{
		"address":          Hex(l.Address),
		"topics":           topics,
		"data":             Hex(l.Data),
		"blockNumber":      Qty(b.Num),
		"blockHash":        Hex(b.Hash),
		"transactionHash":  Hex(t.Hash),
		"transactionIndex": Qty(t.Idx),
		"logIndex":         Qty(l.Idx),
		"removed":          false,
	}
}

func LogJSON(b *Block, t *Tx, l *Log) Obj { return logObj(b, t, l) }

func ReceiptsJSON(b *Block) []any {
	res := []any{}
	for i := range b.Txs {
		t := &b.Txs[i]
		logs := []any{}
		for li := range t.Logs {
			logs = append(logs, logObj(b, t, &t.Logs[li]))
		}
		res = append(res, Obj{
			"blockHash":         Hex(b.Hash),
			"blockNumber":       Qty(b.Num),
			"transactionHash":   Hex(t.Hash),
			"transactionIndex":  Qty(t.Idx),
			"type":              Qty(uint64(t.Type)),
			"from":              Hex(t.From),
			"to":                Hex(t.To),
			"status":            Qty(uint64(t.Status)),
			"gasUsed":           Qty(t.GasUsed),
			"effectiveGasPrice": Qty(t.EffectiveGasPrice),
			"contractAddress":   Hex(t.ContractAddress),
			"logs":              logs,
		})
	}
	return res
}

func TracesJSON(b *Block) []any {
	res := []any{}
	for i := range b.Txs {
		t := &b.Txs[i]
		for k := range t.Traces {
			tr := &t.Traces[k]
			res = append(res, Obj{
				"blockHash":           Hex(b.Hash),
				"blockNumber":         b.Num,
				"transactionHash":     Hex(t.Hash),
				"transactionPosition": t.Idx,
				"type":                "call",
				"subtraces":           uint64(0),
				"action": Obj{
					"from":     Hex(tr.From),
					"to":       Hex(tr.To),
					"callType": tr.CallType,
					"value":    Qty(tr.Value),
					"gas":      "0x1",
					"input":    "0x",
				},
			})
		}
	}
	return res
}

// SortedKeys is a helper for deterministic reports over Counts().
func SortedKeys(m map[string]int) []string {
	ks := make([]string, 0, len(m))
	for k := range m {
		ks = append(ks, k)
	}
	sort.Strings(ks)
	return ks
}

func (x *Exchange) String() string { return fmt.Sprintf("%s[%s]", x.Kind(), x.Key()) }
