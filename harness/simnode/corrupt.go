package simnode

import (
	"encoding/json"
	"fmt"
	"strings"
)

// Corruption is one scripted mutation of one exchange's reply.  It is applied
// by a Post hook to the exchange whose Key() equals Target (Target "" = any
// exchange whose Kind() equals OnKind).
type Corruption struct {
	Target string `json:"target,omitempty"`
	OnKind string `json:"on_kind,omitempty"`
	Kind   string `json:"kind"`
	Pos    int    `json:"pos"` // element of the batch
	Sub    int    `json:"sub"` // item inside the element's result, or the second position
	Arg    int64  `json:"arg"` // new number / error code / status / quarter
}

func (c Corruption) String() string {
	return fmt.Sprintf("%s@%d.%d(%d)", c.Kind, c.Pos, c.Sub, c.Arg)
}

// Matches tells whether c is aimed at x.
func (c Corruption) Matches(x *Exchange) bool {
	if c.Target != "" {
		return c.Target == x.Key()
	}
	return c.OnKind == "" || c.OnKind == x.Kind()
}

// PostHook returns a Post hook applying every corruption to the exchanges it is aimed at.
func PostHook(cs ...Corruption) func(x *Exchange) {
	return func(x *Exchange) {
		for _, c := range cs {
			if c.Matches(x) {
				c.Apply(x)
			}
		}
	}
}

func clone(v any) any {
	switch t := v.(type) {
	case map[string]any:
		o := make(Obj, len(t))
		for k, e := range t {
			o[k] = clone(e)
		}
		return o
	case []any:
		l := make([]any, len(t))
		for i, e := range t {
			l[i] = clone(e)
		}
		return l
	}
	return v
}

// NumOf reads a block number / index spelled as quantity string or JSON number.
func NumOf(v any) (uint64, bool) {
	switch t := v.(type) {
	case string:
		return ParseQty(t)
	case uint64:
		return t, true
	case int:
		return uint64(t), t >= 0
	case float64:
		return uint64(t), t >= 0
	case json.Number:
		n, err := t.Int64()
		return uint64(n), err == nil && n >= 0
	}
	return 0, false
}

func cloneResp(r *Response) *Response {
	c := *r
	c.Result = clone(r.Result)
	if r.Error != nil {
		e := *r.Error
		c.Error = &e
	}
	return &c
}

// items returns the result list of element pos (receipts, logs, traces).
func items(x *Exchange, pos int) ([]any, bool) {
	if pos < 0 || pos >= len(x.Resps) {
		return nil, false
	}
	l, ok := x.Resps[pos].Result.([]any)
	return l, ok
}

func obj(v any) (Obj, bool) { o, ok := v.(map[string]any); return o, ok }

// numberKey: traces spell blockNumber as a JSON number, everything else as a quantity string.
func setNum(o Obj, key string, n uint64) {
	switch o[key].(type) {
	case string:
		o[key] = Qty(n)
	default:
		o[key] = n
	}
}

func flipHex(o Obj, key string) {
	s, _ := o[key].(string)
	b := ParseHex(s)
	if len(b) == 0 {
		b = []byte{0}
	}
	b[len(b)-1] ^= 0x5a
	o[key] = Hex(b)
}

// Apply performs the mutation; false when it does not fit the exchange (then
// nothing was changed).
func (c Corruption) Apply(x *Exchange) bool {
	n := len(x.Resps)
	inb := func(i int) bool { return i >= 0 && i < n }
	switch c.Kind {
	// ---- transport
	case "status":
		x.Status = int(c.Arg)
	case "truncate": // keep Arg quarters of the body
		b := x.Body
		if b == nil {
			if x.Batch {
				b, _ = json.Marshal(x.Resps)
			} else if n > 0 {
				b, _ = json.Marshal(x.Resps[0])
			}
		}
		x.Body = b
		x.Keep = len(b) * int(c.Arg) / 4
	case "abort":
		x.Abort = true
	case "not-json":
		x.Body = []byte("<html>bad gateway</html>")
	case "wrong-shape": // object where an array is expected and vice versa
		if x.Batch {
			if n == 0 {
				return false
			}
			x.Body, _ = json.Marshal(x.Resps[0])
		} else {
			x.Body, _ = json.Marshal(x.Resps)
		}
	case "null-body":
		x.Body = []byte("null")
	// ---- batch structure
	case "drop":
		if !x.Batch || !inb(c.Pos) {
			return false
		}
		x.Resps = append(x.Resps[:c.Pos:c.Pos], x.Resps[c.Pos+1:]...)
	case "dup": // element Pos sent twice (batch one longer)
		if !x.Batch || !inb(c.Pos) {
			return false
		}
		r := append([]*Response{}, x.Resps[:c.Pos+1]...)
		r = append(r, cloneResp(x.Resps[c.Pos]))
		x.Resps = append(r, x.Resps[c.Pos+1:]...)
	case "dup-over": // element Sub replaced by a copy of element Pos (same length)
		if !x.Batch || !inb(c.Pos) || !inb(c.Sub) || c.Pos == c.Sub {
			return false
		}
		x.Resps[c.Sub] = cloneResp(x.Resps[c.Pos])
	case "swap":
		if !x.Batch || !inb(c.Pos) || !inb(c.Sub) || c.Pos == c.Sub {
			return false
		}
		x.Resps[c.Pos], x.Resps[c.Sub] = x.Resps[c.Sub], x.Resps[c.Pos]
	case "null-result":
		if !inb(c.Pos) {
			return false
		}
		x.Resps[c.Pos].Result = nil
	case "no-result":
		if !inb(c.Pos) {
			return false
		}
		x.Resps[c.Pos].Result = nil
		x.Resps[c.Pos].NoResult = true
	case "null-elem":
		if !x.Batch || !inb(c.Pos) {
			return false
		}
		x.Resps[c.Pos].Raw = json.RawMessage("null")
	case "error", "error-pos", "error-data": // error member next to the (well-formed) result; Arg = code
		// "error": negative codes and 0; "error-pos": positive codes (3 execution reverted, 429, proxy codes);
		// "error-data": with a data member
		if !inb(c.Pos) {
			return false
		}
		x.Resps[c.Pos].Error = &RPCError{Code: int(c.Arg), Message: "scripted"}
		if c.Kind == "error-data" {
			x.Resps[c.Pos].Error.Data = "0x08c379a0"
		}
	case "error-only": // error member instead of the result
		if !inb(c.Pos) {
			return false
		}
		x.Resps[c.Pos].Error = &RPCError{Code: int(c.Arg), Message: "scripted"}
		x.Resps[c.Pos].Result = nil
		x.Resps[c.Pos].NoResult = true
	// ---- block / header elements
	case "renumber":
		o, ok := blockObj(x, c.Pos)
		if !ok {
			return false
		}
		o["number"] = Qty(uint64(c.Arg))
	case "break-parent":
		o, ok := blockObj(x, c.Pos)
		if !ok {
			return false
		}
		flipHex(o, "parentHash")
	case "break-hash":
		o, ok := blockObj(x, c.Pos)
		if !ok {
			return false
		}
		flipHex(o, "hash")
	case "empty-hash":
		o, ok := blockObj(x, c.Pos)
		if !ok {
			return false
		}
		o["hash"] = "0x"
	case "num-wrap", "num-pad", "num-long": // the number of a block / header element in another spelling
		o, ok := blockObj(x, c.Pos)
		if !ok {
			return false
		}
		own, _ := ParseQty(str(o["number"]))
		o["number"] = WideQty(c.Kind, own, c.Arg)
		if c.Kind != "num-pad" {
			x.Garbled = true
		}
	case "garble-number":
		o, ok := blockObj(x, c.Pos)
		if !ok {
			return false
		}
		o["number"] = "0xzz"
		x.Garbled = true
	case "tx-drop", "tx-dup", "tx-reidx": // a transaction of a full block
		o, ok := blockObj(x, c.Pos)
		if !ok {
			return false
		}
		txs, ok := o["transactions"].([]any)
		if !ok || c.Sub < 0 || c.Sub >= len(txs) {
			return false
		}
		switch c.Kind {
		case "tx-drop":
			o["transactions"] = append(txs[:c.Sub:c.Sub], txs[c.Sub+1:]...)
		case "tx-dup":
			o["transactions"] = append(append([]any{}, txs...), clone(txs[c.Sub]))
		default:
			t, ok := obj(txs[c.Sub])
			if !ok {
				return false
			}
			t["transactionIndex"] = Qty(uint64(c.Arg))
		}
	// ---- items of receipts / logs / traces results
	case "item-move", "item-hash", "item-drop", "item-dup", "item-null", "item-txidx", "item-txhash", "item-logidx":
		l, ok := items(x, c.Pos)
		if !ok || c.Sub < 0 || c.Sub >= len(l) {
			return false
		}
		switch c.Kind {
		case "item-drop":
			x.Resps[c.Pos].Result = append(l[:c.Sub:c.Sub], l[c.Sub+1:]...)
			return true
		case "item-dup":
			x.Resps[c.Pos].Result = append(append([]any{}, l...), clone(l[c.Sub]))
			return true
		case "item-null":
			l[c.Sub] = nil
			return true
		}
		o, ok := obj(l[c.Sub])
		if !ok {
			return false
		}
		switch c.Kind {
		case "item-move":
			setNum(o, "blockNumber", uint64(c.Arg))
		case "item-hash":
			flipHex(o, "blockHash")
		case "item-txhash":
			flipHex(o, "transactionHash")
		case "item-txidx":
			if _, isTrace := o["transactionPosition"]; isTrace {
				o["transactionPosition"] = uint64(c.Arg)
			} else {
				o["transactionIndex"] = Qty(uint64(c.Arg))
			}
		case "item-logidx":
			if _, has := o["logIndex"]; !has {
				return false
			}
			o["logIndex"] = Qty(uint64(c.Arg))
		}
	case "item-num-wrap", "item-num-pad", "item-num-long": // the blockNumber of one item in another spelling
		l, ok := items(x, c.Pos)
		if !ok || c.Sub < 0 || c.Sub >= len(l) {
			return false
		}
		o, ok := obj(l[c.Sub])
		if !ok {
			return false
		}
		cur, isStr := o["blockNumber"].(string)
		if !isStr {
			return false // trace_block spells it as a JSON number
		}
		own, _ := ParseQty(cur)
		o["blockNumber"] = WideQty(strings.TrimPrefix(c.Kind, "item-"), own, c.Arg)
		if c.Kind != "item-num-pad" {
			x.Garbled = true
		}
	case "items-move": // every item of the element renumbered
		l, ok := items(x, c.Pos)
		if !ok || len(l) == 0 {
			return false
		}
		for _, it := range l {
			if o, ok := obj(it); ok {
				setNum(o, "blockNumber", uint64(c.Arg))
			}
		}
	case "items-empty":
		if _, ok := items(x, c.Pos); !ok {
			return false
		}
		x.Resps[c.Pos].Result = []any{}
	default:
		return false
	}
	return true
}

// WideQty spells quantities of more than 16 hex digits:
//
//	num-wrap  own + k*2^64: the high digits 1, f, 10, ab (arg 0..3) in front of the 16 digits of own
//	          (17 or 18 digits; ANOTHER number, equal to own only modulo 2^64: must be refused)
//	num-pad   own left-padded with zeros to arg digits (17..20; a valid spelling of own)
//	num-long  19 and more digits with a non-zero head (arg 0: 1 + 18 digits, 1: ff + 20 digits): must be refused
func WideQty(kind string, own uint64, arg int64) string {
	switch kind {
	case "num-wrap":
		return "0x" + []string{"1", "f", "10", "ab"}[int(arg)%4] + fmt.Sprintf("%016x", own)
	case "num-pad":
		return fmt.Sprintf("0x%0*x", int(arg), own)
	default:
		if arg%2 == 0 {
			return "0x1" + fmt.Sprintf("%018x", own)
		}
		return "0xff" + fmt.Sprintf("%020x", own)
	}
}

func blockObj(x *Exchange, pos int) (Obj, bool) {
	if pos < 0 || pos >= len(x.Resps) {
		return nil, false
	}
	o, ok := obj(x.Resps[pos].Result)
	if !ok {
		return nil, false
	}
	if _, has := o["number"]; !has {
		return nil, false
	}
	return o, true
}

// Enumerate lists every single corruption of the listed classes that fits the
// honest exchange x of a request for blocks [start, start+limit): every
// position, every item, neighbouring / out-of-range numbers.
func Enumerate(x *Exchange, start, limit uint64) []Corruption {
	var res []Corruption
	key := x.Key()
	add := func(kind string, pos, sub int, arg int64) {
		res = append(res, Corruption{Target: key, Kind: kind, Pos: pos, Sub: sub, Arg: arg})
	}
	// transport
	for _, st := range []int64{429, 500, 301, 404, 201} {
		add("status", 0, 0, st)
	}
	for q := int64(0); q < 4; q++ {
		add("truncate", 0, 0, q)
	}
	add("abort", 0, 0, 0)
	add("not-json", 0, 0, 0)
	add("wrong-shape", 0, 0, 0)
	add("null-body", 0, 0, 0)
	n := len(x.Resps)
	nums := func(own uint64) []int64 {
		cand := []uint64{own + 1, start + limit, start + limit + 1, start, start + limit - 1}
		if own > 0 {
			cand = append(cand, own-1)
		}
		if start > 0 {
			cand = append(cand, start-1)
		}
		seen := map[uint64]bool{own: true}
		var out []int64
		for _, v := range cand {
			if !seen[v] {
				seen[v] = true
				out = append(out, int64(v))
			}
		}
		return out
	}
	for i := 0; i < n; i++ {
		if x.Batch {
			add("drop", i, 0, 0)
			add("dup", i, 0, 0)
			add("null-elem", i, 0, 0)
			for j := 0; j < n; j++ {
				if j != i {
					add("dup-over", i, j, 0)
				}
				if j > i {
					add("swap", i, j, 0)
				}
			}
		}
		add("null-result", i, 0, 0)
		add("no-result", i, 0, 0)
		for _, code := range []int64{-32000, -32005, -32601, -1, -2147483648, 0} {
			add("error", i, 0, code)
		}
		for _, code := range []int64{1, 3, 429, 32000, 2147483647} {
			add("error-pos", i, 0, code)
		}
		for _, code := range []int64{3, -32000, 429} {
			add("error-data", i, 0, code)
		}
		add("error-only", i, 0, -32005)
		add("error-only", i, 0, 0)
		if o, ok := blockObj(x, i); ok {
			own, _ := ParseQty(str(o["number"]))
			for _, v := range nums(own) {
				add("renumber", i, 0, v)
			}
			add("break-parent", i, 0, 0)
			add("break-hash", i, 0, 0)
			add("empty-hash", i, 0, 0)
			add("garble-number", i, 0, 0)
			for a := int64(0); a < 4; a++ {
				add("num-wrap", i, 0, a)
			}
			for _, a := range []int64{17, 18, 20} {
				add("num-pad", i, 0, a)
			}
			add("num-long", i, 0, 0)
			add("num-long", i, 0, 1)
			if txs, ok := o["transactions"].([]any); ok {
				for k := range txs {
					add("tx-drop", i, k, 0)
					add("tx-dup", i, k, 0)
					add("tx-reidx", i, k, int64(len(txs)+3))
					if k > 0 {
						add("tx-reidx", i, k, 0)
					}
				}
			}
		}
		if l, ok := items(x, i); ok {
			add("items-empty", i, 0, 0)
			var own uint64
			if len(l) > 0 {
				if o, ok := obj(l[0]); ok {
					own, _ = NumOf(o["blockNumber"])
				}
				for _, v := range nums(own) {
					add("items-move", i, 0, v)
				}
			}
			for k := range l {
				o, _ := obj(l[k])
				bn, _ := NumOf(o["blockNumber"])
				for _, v := range nums(bn) {
					add("item-move", i, k, v)
				}
				add("item-hash", i, k, 0)
				add("item-txhash", i, k, 0)
				add("item-drop", i, k, 0)
				add("item-dup", i, k, 0)
				add("item-null", i, k, 0)
				if _, isStr := o["blockNumber"].(string); isStr {
					add("item-num-wrap", i, k, int64(k%4))
					add("item-num-pad", i, k, int64(17+k%4))
					add("item-num-long", i, k, int64(k%2))
				}
				add("item-txidx", i, k, 7)
				if k > 0 {
					add("item-txidx", i, k, 0)
				}
				if _, has := o["logIndex"]; has {
					add("item-logidx", i, k, 0)
					add("item-logidx", i, k, 99)
				}
			}
		}
	}
	return res
}
