package c18skel

import (
	"go/ast"
	"go/token"
	"go/types"
)

// analyseFresh decides, for the locals of one function body, which of them
// only ever hold memory allocated by this goroutine and not yet visible to
// another one ("fresh": make, composite literals, zero values, decoded RPC
// responses held in such locals, values derived from fresh locals).  A local
// stops being fresh as soon as anything that may point to shared memory is
// stored into it.  Accesses through fresh locals are goroutine-private (ROwn).
//
// Flow-insensitive; parameters are fresh when the argument bound to them is.
func (x *xl) analyseFresh(ft *ast.FuncType, body *ast.BlockStmt) {
	locals := map[types.Object]bool{}
	// parameters
	if ft != nil && ft.Params != nil {
		for _, fld := range ft.Params.List {
			for _, n := range fld.Names {
				obj := x.p.objOf(n)
				if obj == nil {
					continue
				}
				b, ok := x.env[obj]
				x.fresh[obj] = ok && b.path != nil && x.freshPath(b.path)
			}
		}
	}
	ast.Inspect(body, func(n ast.Node) bool {
		switch v := n.(type) {
		case *ast.FuncLit:
			return false
		case *ast.Ident:
			for _, pk := range x.p.pkgs {
				if o, ok := pk.TypesInfo.Defs[v].(*types.Var); ok && !o.IsField() {
					locals[o] = true
				}
			}
		case *ast.CaseClause:
			if o := x.p.implicitObj(v); o != nil {
				locals[o] = true
			}
		}
		return true
	})
	for o := range locals {
		delete(x.env, o) // bindings left by an earlier translation of this body
		if _, glob := x.region.glob[o]; glob {
			x.fresh[o] = false
			continue
		}
		if _, sh := x.region.shared[o]; sh {
			x.fresh[o] = false
			continue
		}
		x.fresh[o] = true
	}
	kill := func(o types.Object) bool {
		if o != nil && locals[o] && x.fresh[o] {
			x.fresh[o] = false
			return true
		}
		return false
	}
	for changed := true; changed; {
		changed = false
		ast.Inspect(body, func(n ast.Node) bool {
			switch s := n.(type) {
			case *ast.FuncLit:
				return false
			case *ast.AssignStmt:
				for i, l := range s.Lhs {
					var rhs ast.Expr
					switch {
					case len(s.Rhs) == len(s.Lhs):
						rhs = s.Rhs[i]
					case len(s.Rhs) == 1:
						rhs = s.Rhs[0]
					}
					root := rootIdent(l)
					if root == nil || root.Name == "_" {
						continue
					}
					ro := x.p.objOf(root)
					if !locals[ro] {
						continue
					}
					lt := x.p.typeOf(l)
					if lt != nil && !hasPointers(lt, map[types.Type]bool{}) {
						continue // scalars cannot make a local point anywhere
					}
					if !x.freshExpr(rhs) {
						if kill(ro) {
							changed = true
						}
					}
				}
			case *ast.ValueSpec:
				for i, n := range s.Names {
					if i < len(s.Values) {
						o := x.p.objOf(n)
						if hasPointers(o.Type(), map[types.Type]bool{}) && !x.freshExpr(s.Values[i]) {
							if kill(o) {
								changed = true
							}
						}
					}
				}
			case *ast.RangeStmt:
				if s.Tok == token.DEFINE && !x.freshExpr(s.X) {
					for _, e := range []ast.Expr{s.Key, s.Value} {
						if id, ok := e.(*ast.Ident); ok {
							o := x.p.objOf(id)
							if o != nil && hasPointers(o.Type(), map[types.Type]bool{}) && kill(o) {
								changed = true
							}
						}
					}
				}
			case *ast.TypeSwitchStmt:
				var src ast.Expr
				if a, ok := s.Assign.(*ast.AssignStmt); ok {
					if ta, ok := a.Rhs[0].(*ast.TypeAssertExpr); ok {
						src = ta.X
					}
				}
				if src != nil && !x.freshExpr(src) {
					for _, c := range s.Body.List {
						if kill(x.p.implicitObj(c)) {
							changed = true
						}
					}
				}
			case *ast.CallExpr:
				// copy(dst, src): dst receives src's pointers
				if id, ok := ast.Unparen(s.Fun).(*ast.Ident); ok && id.Name == "copy" && len(s.Args) == 2 {
					if _, ok := x.p.objOf(id).(*types.Builtin); ok {
						if root := rootIdent(s.Args[0]); root != nil && !x.freshExpr(s.Args[1]) {
							if kill(x.p.objOf(root)) {
								changed = true
							}
						}
					}
				}
			}
			return true
		})
	}

	// own allocation: the local is only ever set to memory allocated right
	// there (make, new, composite literal, growing itself by append) and is
	// never stored anywhere another goroutine could find it.  The object it
	// designates directly is then goroutine-private even when pointers to
	// shared data are stored INTO it (fresh, above, is the deep version).
	for o := range locals {
		_, glob := x.region.glob[o]
		_, sh := x.region.shared[o]
		x.alloc[o] = !glob && !sh
	}
	ast.Inspect(body, func(n ast.Node) bool {
		switch s := n.(type) {
		case *ast.FuncLit:
			return false
		case *ast.AssignStmt:
			for i, l := range s.Lhs {
				var rhs ast.Expr
				switch {
				case len(s.Rhs) == len(s.Lhs):
					rhs = s.Rhs[i]
				case len(s.Rhs) == 1:
					rhs = s.Rhs[0]
				}
				if id, ok := ast.Unparen(l).(*ast.Ident); ok {
					if o := x.p.objOf(id); locals[o] && !x.allocExpr(rhs, o) {
						x.alloc[o] = false
					}
					continue
				}
				// a store into something: does it publish a local?
				if r := ast.Unparen(rhs); r != nil {
					if u, ok := r.(*ast.UnaryExpr); ok && u.Op == token.AND {
						r = ast.Unparen(u.X)
					}
					if id, ok := r.(*ast.Ident); ok {
						if o := x.p.objOf(id); locals[o] {
							root := rootIdent(l)
							if root == nil || !locals[x.p.objOf(root)] || !(x.fresh[x.p.objOf(root)] || x.alloc[x.p.objOf(root)]) {
								x.alloc[o] = false
							}
						}
					}
				}
			}
		case *ast.ValueSpec:
			for i, n := range s.Names {
				if i < len(s.Values) {
					if o := x.p.objOf(n); locals[o] && !x.allocExpr(s.Values[i], o) {
						x.alloc[o] = false
					}
				}
			}
		case *ast.RangeStmt:
			if s.Tok == token.DEFINE {
				for _, e := range []ast.Expr{s.Key, s.Value} {
					if id, ok := e.(*ast.Ident); ok {
						if o := x.p.objOf(id); o != nil {
							x.alloc[o] = false
						}
					}
				}
			}
		case *ast.CaseClause:
			if o := x.p.implicitObj(s); o != nil {
				x.alloc[o] = false
			}
		}
		return true
	})
}

// allocExpr: e allocates new memory (or grows the local self by append).
func (x *xl) allocExpr(e ast.Expr, self types.Object) bool {
	switch e := ast.Unparen(e).(type) {
	case nil:
		return true
	case *ast.CompositeLit:
		return true
	case *ast.UnaryExpr:
		if e.Op == token.AND {
			_, ok := ast.Unparen(e.X).(*ast.CompositeLit)
			return ok
		}
	case *ast.Ident:
		return e.Name == "nil"
	case *ast.CallExpr:
		if id, ok := ast.Unparen(e.Fun).(*ast.Ident); ok {
			if _, ok := x.p.objOf(id).(*types.Builtin); ok {
				switch id.Name {
				case "make", "new":
					return true
				case "append":
					if a, ok := ast.Unparen(e.Args[0]).(*ast.Ident); ok && x.p.objOf(a) == self {
						return true
					}
				}
			}
		}
	}
	return false
}

func (x *xl) freshPath(p *path) bool {
	if p.fresh || p.ownIdx {
		return true
	}
	if p.root == nil {
		return false
	}
	return x.fresh[p.root]
}

// freshExpr: the value of e cannot point to memory another goroutine sees.
func (x *xl) freshExpr(e ast.Expr) bool {
	if e == nil {
		return true
	}
	if t := x.p.typeOf(e); t != nil && !hasPointers(t, map[types.Type]bool{}) {
		return true
	}
	switch e := ast.Unparen(e).(type) {
	case *ast.BasicLit, *ast.FuncLit:
		return true
	case *ast.CompositeLit:
		for _, el := range e.Elts {
			if kv, ok := el.(*ast.KeyValueExpr); ok {
				el = kv.Value
			}
			if !x.freshExpr(el) {
				return false
			}
		}
		return true
	case *ast.Ident:
		if e.Name == "nil" {
			return true
		}
		o := x.p.objOf(e)
		if v, ok := o.(*types.Var); ok {
			if b, ok := x.env[v]; ok && b.path != nil {
				return x.freshPath(b.path)
			}
			return x.fresh[v]
		}
		return false
	case *ast.UnaryExpr:
		if e.Op == token.AND {
			return x.freshExpr(e.X)
		}
		if e.Op == token.ARROW {
			return false
		}
		return true
	case *ast.SelectorExpr, *ast.IndexExpr, *ast.SliceExpr, *ast.StarExpr, *ast.TypeAssertExpr:
		if p := x.loc(e); p != nil {
			return x.freshPath(p)
		}
		root := rootIdent(e)
		if root == nil {
			return false
		}
		return x.freshExpr(root)
	case *ast.BinaryExpr:
		return true
	case *ast.CallExpr:
		if x.p.isType(e.Fun) && len(e.Args) == 1 {
			return x.freshExpr(e.Args[0])
		}
		if id, ok := ast.Unparen(e.Fun).(*ast.Ident); ok {
			if _, ok := x.p.objOf(id).(*types.Builtin); ok {
				switch id.Name {
				case "make", "new":
					return true
				case "append":
					for _, a := range e.Args {
						if !x.freshExpr(a) {
							return false
						}
					}
					return true
				}
				return true
			}
		}
		f, recv := x.p.callee(e)
		if f == nil {
			return false
		}
		if freshCalls[f.FullName()] {
			return true
		}
		if _, ok := returnsPart[x.p.FuncName(f)]; ok && recv != nil {
			return x.freshExpr(recv)
		}
		return false
	}
	return false
}
