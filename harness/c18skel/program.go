package c18skel

import (
	"fmt"
	"go/ast"
	"go/token"
	"go/types"
	"path/filepath"
	"strings"

	"golang.org/x/tools/go/packages"
)

// Program: the type-checked packages of the repository under translation.
type Program struct {
	repo     string
	fset     *token.FileSet
	pkgs     []*packages.Package
	decls    map[*types.Func]*ast.FuncDecl
	litName  map[*ast.FuncLit]string
	encl     map[ast.Node]string // FuncDecl / FuncLit -> short name
	fileOf   map[*ast.File]string
	allFiles []*ast.File
}

type Refusal struct{ Msg string }

func (r Refusal) Error() string { return "shape changed: " + r.Msg }

func refuse(format string, a ...any) { panic(Refusal{fmt.Sprintf(format, a...)}) }

func Load(repo string) (*Program, error) {
	cfg := &packages.Config{
		Mode: packages.NeedName | packages.NeedFiles | packages.NeedSyntax | packages.NeedTypes |
			packages.NeedTypesInfo | packages.NeedDeps | packages.NeedImports,
		Dir:   repo,
		Tests: false,
	}
	var pats []string
	for _, p := range modulePkgs {
		pats = append(pats, "./"+p)
	}
	pkgs, err := packages.Load(cfg, pats...)
	if err != nil {
		return nil, err
	}
	p := &Program{repo: repo, decls: map[*types.Func]*ast.FuncDecl{}, litName: map[*ast.FuncLit]string{},
		encl: map[ast.Node]string{}, fileOf: map[*ast.File]string{}}
	for _, pk := range pkgs {
		if len(pk.Errors) > 0 {
			return nil, fmt.Errorf("package %s: %v", pk.PkgPath, pk.Errors[0])
		}
		p.fset = pk.Fset
		p.pkgs = append(p.pkgs, pk)
		for _, f := range pk.Syntax {
			name := p.fset.Position(f.Pos()).Filename
			if rel, err := filepath.Rel(repo, name); err == nil {
				name = rel
			}
			if strings.Contains(name, "verif_export") { // hooks are not part of the program
				continue
			}
			p.fileOf[f] = name
			p.allFiles = append(p.allFiles, f)
			for _, d := range f.Decls {
				fd, ok := d.(*ast.FuncDecl)
				if !ok || fd.Body == nil {
					continue
				}
				fn, _ := pk.TypesInfo.Defs[fd.Name].(*types.Func)
				if fn == nil {
					continue
				}
				p.decls[fn] = fd
				fname := p.FuncName(fn)
				p.encl[fd] = fname
				n := 0
				var walk func(parent string, body ast.Node)
				walk = func(parent string, body ast.Node) {
					k := 0
					ast.Inspect(body, func(nd ast.Node) bool {
						if lit, ok := nd.(*ast.FuncLit); ok {
							k++
							var nm string
							if parent == fname {
								n++
								nm = fmt.Sprintf("%s.func%d", fname, n)
							} else {
								nm = fmt.Sprintf("%s.%d", parent, k)
							}
							p.litName[lit] = nm
							p.encl[lit] = nm
							walk(nm, lit.Body)
							return false
						}
						return true
					})
				}
				walk(fname, fd.Body)
			}
		}
	}
	if len(p.pkgs) == 0 {
		return nil, fmt.Errorf("no packages loaded from %s", repo)
	}
	return p, nil
}

func short(s string) string { return strings.ReplaceAll(s, Module+"/", "") }

// FuncName renders a function the way the race detector does, without the
// module prefix: jrpc2.(*Client).Get, dig.Integration.Insert, eth.Keccak.
func (p *Program) FuncName(f *types.Func) string {
	sig := f.Type().(*types.Signature)
	pkg := ""
	if f.Pkg() != nil {
		pkg = short(f.Pkg().Path())
	}
	if r := sig.Recv(); r != nil {
		t := r.Type()
		ptr := false
		if pt, ok := t.(*types.Pointer); ok {
			t, ptr = pt.Elem(), true
		}
		tn := "?"
		switch n := t.(type) {
		case *types.Named:
			tn = n.Obj().Name()
			if n.Obj().Pkg() != nil {
				pkg = short(n.Obj().Pkg().Path())
			}
		}
		if ptr {
			return fmt.Sprintf("%s.(*%s).%s", pkg, tn, f.Name())
		}
		return fmt.Sprintf("%s.%s.%s", pkg, tn, f.Name())
	}
	return pkg + "." + f.Name()
}

func typeName(t types.Type) string {
	if pt, ok := t.(*types.Pointer); ok {
		return "*" + typeName(pt.Elem())
	}
	if n, ok := t.(*types.Named); ok {
		if n.Obj().Pkg() == nil {
			return n.Obj().Name()
		}
		return short(n.Obj().Pkg().Path()) + "." + n.Obj().Name()
	}
	return short(t.String())
}

func (p *Program) typeOf(e ast.Expr) types.Type {
	for _, pk := range p.pkgs {
		if tv, ok := pk.TypesInfo.Types[e]; ok {
			return tv.Type
		}
	}
	if id, ok := e.(*ast.Ident); ok {
		if o := p.objOf(id); o != nil {
			return o.Type()
		}
	}
	return nil
}

func (p *Program) isType(e ast.Expr) bool {
	for _, pk := range p.pkgs {
		if tv, ok := pk.TypesInfo.Types[e]; ok {
			return tv.IsType()
		}
	}
	return false
}

func (p *Program) objOf(id *ast.Ident) types.Object {
	for _, pk := range p.pkgs {
		if o := pk.TypesInfo.Uses[id]; o != nil {
			return o
		}
		if o := pk.TypesInfo.Defs[id]; o != nil {
			return o
		}
	}
	return nil
}

func (p *Program) selOf(s *ast.SelectorExpr) *types.Selection {
	for _, pk := range p.pkgs {
		if sel := pk.TypesInfo.Selections[s]; sel != nil {
			return sel
		}
	}
	return nil
}

func (p *Program) implicitObj(n ast.Node) types.Object {
	for _, pk := range p.pkgs {
		if o := pk.TypesInfo.Implicits[n]; o != nil {
			return o
		}
	}
	return nil
}

func (p *Program) Pos(n ast.Node) string {
	ps := p.fset.Position(n.Pos())
	name := ps.Filename
	if rel, err := filepath.Rel(p.repo, name); err == nil {
		name = rel
	}
	return fmt.Sprintf("%s:%d", name, ps.Line)
}

// callee resolves the function or method a call expression invokes.
func (p *Program) callee(call *ast.CallExpr) (f *types.Func, recv ast.Expr) {
	fun := ast.Unparen(call.Fun)
	switch fn := fun.(type) {
	case *ast.Ident:
		f, _ = p.objOf(fn).(*types.Func)
	case *ast.SelectorExpr:
		if sel := p.selOf(fn); sel != nil {
			if sel.Kind() == types.MethodVal {
				f, _ = sel.Obj().(*types.Func)
				recv = fn.X
			}
			return
		}
		f, _ = p.objOf(fn.Sel).(*types.Func) // package-qualified
	case *ast.IndexExpr: // generic instantiation f[T](...)
		if id, ok := fn.X.(*ast.Ident); ok {
			f, _ = p.objOf(id).(*types.Func)
		} else if s, ok := fn.X.(*ast.SelectorExpr); ok {
			f, _ = p.objOf(s.Sel).(*types.Func)
		}
	}
	return
}

func (p *Program) extName(f *types.Func) string {
	// FullName without module shortening, for the external-function tables
	return f.FullName()
}

func isModule(pkg *types.Package) bool {
	return pkg != nil && (pkg.Path() == Module || strings.HasPrefix(pkg.Path(), Module+"/"))
}

func hasPointers(t types.Type, seen map[types.Type]bool) bool {
	if t == nil {
		return false
	}
	if n, ok := t.(*types.Named); ok {
		if n.Obj().Pkg() == nil && n.Obj().Name() == "error" {
			return false
		}
		if seen[t] {
			return false
		}
		seen[t] = true
	}
	switch u := t.Underlying().(type) {
	case *types.Basic:
		return u.Kind() == types.UnsafePointer
	case *types.Pointer, *types.Slice, *types.Map, *types.Chan, *types.Signature, *types.Interface:
		return true
	case *types.Struct:
		for i := 0; i < u.NumFields(); i++ {
			if hasPointers(u.Field(i).Type(), seen) {
				return true
			}
		}
		return false
	case *types.Array:
		return hasPointers(u.Elem(), seen)
	case *types.Tuple:
		for i := 0; i < u.Len(); i++ {
			if hasPointers(u.At(i).Type(), seen) {
				return true
			}
		}
		return false
	}
	return true
}

// moduleStruct: a named struct type declared in the module (by value).
func moduleStruct(t types.Type) (*types.Named, *types.Struct) {
	n, ok := t.(*types.Named)
	if !ok || !isModule(n.Obj().Pkg()) {
		return nil, nil
	}
	st, ok := n.Underlying().(*types.Struct)
	if !ok {
		return nil, nil
	}
	return n, st
}

func isSyncType(t types.Type, name string) bool {
	n, ok := t.(*types.Named)
	return ok && n.Obj().Pkg() != nil && n.Obj().Pkg().Path() == "sync" && n.Obj().Name() == name
}

// mutexBearing: the struct has a sync.Mutex field (embedded or named) directly.
func mutexBearing(st *types.Struct) bool {
	for i := 0; i < st.NumFields(); i++ {
		if isSyncType(st.Field(i).Type(), "Mutex") {
			return true
		}
	}
	return false
}
