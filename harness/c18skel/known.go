package c18skel

import "strings"

// KnownExempt mirrors Properties/C18.v [known_exempt]: the design-level
// finding recorded for C18.  A pair is exempt when one access is made by a
// CONSUMER of cached block data (not on a call path through the functions
// that attach data to cached blocks, and outside the block lock) and the
// other is an ATTACHING access made under the lock of the very block it
// touches (or the Lock()/Unlock() operation on that block's mutex itself).  Everything else the checker rejects is reported.
func blockDataClass(cls string) bool {
	for _, p := range []string{"eth.Block.", "eth.Header.", "eth.Tx.", "eth.Receipt.", "eth.Log.", "eth.TraceAction."} {
		if strings.HasPrefix(cls, p) {
			return true
		}
	}
	return false
}

func OnAttachPath(a Access) bool {
	for _, f := range a.Path {
		for _, g := range AttachFns {
			if f == g {
				return true
			}
		}
	}
	return false
}

// consumerAccess: what consumers are known to do with cached block data:
// read it; and, in eth.Tx.Hash, memoise the transaction hash under the
// transaction's own mutex.  A consumer WRITE anywhere else is not exempt.
func consumerAccess(x GAcc) bool {
	return x.A.Kind == Rd || HeldSelf(x, "eth.Tx.cacheMut") || (x.A.Kind == At && x.A.Cls == "eth.Tx.cacheMut")
}

func KnownExempt(x, y GAcc) bool {
	return blockDataClass(x.A.Cls) && consumerAccess(x) &&
		!OnAttachPath(x.A) && !HeldSelf(x, "eth.Block") &&
		OnAttachPath(y.A) && (HeldSelf(y, "eth.Block") || (y.A.Kind == At && y.A.Cls == "eth.Block.Mutex"))
}

func NoExempt(x, y GAcc) bool { return false }
