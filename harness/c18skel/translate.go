package c18skel

import (
	"fmt"
	"go/ast"
	"go/token"
	"go/types"
	"sort"
	"strings"
)

// regionCtx: what is shared in the fork/join span under translation.
type regionCtx struct {
	name     string
	glob     map[types.Object]string // variables captured by the forked closures: one object for the region
	iter     map[types.Object]bool   // variables of one iteration of the forking loop: one per instance
	shared   map[types.Object]string // variables captured by a goroutine that is never joined
	counters map[types.Object]string // ... of which: RPC counters handed to such a goroutine in a context (kept across passes)
	distinct map[types.Object]bool   // entry parameters that differ in every instance
	hoisted  []Role                  // goroutines started and never joined
	noFork   bool                    // translating the forking function itself (its closures are the other roles)
}

// xl: one translation pass (one role of one region).
type xl struct {
	p       *Program
	t       *translator
	region  *regionCtx
	env     map[types.Object]binding
	fresh   map[types.Object]bool
	alloc   map[types.Object]bool
	declFn  map[types.Object]string
	stack   []string
	active  map[*types.Func]bool
	out     *[]Stmt
	curBody ast.Node // body of the function or closure being translated
	locks   []*lockFrame
	curType *ast.FuncType
	ctxc    map[types.Object]*path // context variables -> the RPC counter their context carries (wctx.WithCounter)
	esc     *[]escape              // references to shared memory the function being translated returns
	lastEsc []escape               // ... and those of the call translated last
	lastAt  ast.Node
}

// escape: result number idx of a function is a slice or map that IS a field of
// a shared object (not a copy of it): whoever holds the result can read that
// memory after every lock taken inside the function has been released.
type escape struct {
	idx int
	p   *path
}

// lockFrame: one open Lock()...Unlock() span.  after collects what runs on an
// exit path AFTER the lock was released there (`x.Unlock(); return e`): it is
// placed behind the Sync, outside the lock.
type lockFrame struct {
	key      string
	deferred bool
	mutex    *path
	after    []Stmt
}

type translator struct {
	p       *Program
	regions []Region
	done    map[string]bool
	visited map[token.Pos]bool
}

func (x *xl) emit(a Access) {
	a.Cls = strings.ReplaceAll(a.Cls, `"`, "'")
	*x.out = append(*x.out, Stmt{Kind: SAcc, Acc: a})
}

// sub runs f with a fresh output list and returns what it emitted.
func (x *xl) sub(f func()) []Stmt {
	saved := x.out
	var list []Stmt
	x.out = &list
	f()
	x.out = saved
	return list
}

func (x *xl) star(f func()) {
	body := x.sub(f)
	if len(body) > 0 {
		*x.out = append(*x.out, Stmt{Kind: SStar, Body: body})
	}
}

// ---------------------------------------------------------------- statements

func (x *xl) mutexCall(s ast.Stmt, method string) (recv ast.Expr, call *ast.CallExpr, ok bool) {
	es, isExpr := s.(*ast.ExprStmt)
	if !isExpr {
		return nil, nil, false
	}
	return x.mutexCallExpr(es.X, method)
}

func (x *xl) mutexCallExpr(e ast.Expr, method string) (recv ast.Expr, call *ast.CallExpr, ok bool) {
	call, isCall := e.(*ast.CallExpr)
	if !isCall {
		return nil, nil, false
	}
	f, r := x.p.callee(call)
	if f == nil || r == nil || f.Name() != method || f.Pkg() == nil || f.Pkg().Path() != "sync" {
		return nil, nil, false
	}
	sig := f.Type().(*types.Signature)
	if rt, _ := deref(sig.Recv().Type()); !isSyncType(rt, "Mutex") {
		return nil, nil, false
	}
	return r, call, true
}

func (x *xl) stmts(list []ast.Stmt) {
	for i := 0; i < len(list); i++ {
		s := list[i]
		if recv, call, ok := x.mutexCall(s, "Lock"); ok {
			x.t.visited[call.Pos()] = true
			key := types.ExprString(recv)
			// Lock(); defer Unlock(): the rest of the block runs under the lock
			if i+1 < len(list) {
				if d, ok := list[i+1].(*ast.DeferStmt); ok {
					if r2, c2, ok := x.mutexCallExpr(d.Call, "Unlock"); ok && types.ExprString(r2) == key {
						x.t.visited[c2.Pos()] = true
						x.sync(recv, call, list[i+2:], true)
						return
					}
				}
			}
			j := -1
			for k := i + 1; k < len(list); k++ {
				if r2, c2, ok := x.mutexCall(list[k], "Unlock"); ok && types.ExprString(r2) == key {
					x.t.visited[c2.Pos()] = true
					j = k
					break
				}
			}
			if j < 0 {
				refuse("%s: %s.Lock() without a matching Unlock in the same block", x.p.Pos(s), key)
			}
			x.sync(recv, call, list[i+1:j], false)
			i = j
			continue
		}
		if recv, call, ok := x.mutexCall(s, "Unlock"); ok {
			// release on an exit path: `x.Unlock(); return e` as the last two
			// statements of a block nested in the span locked on x.  What
			// precedes stays under the lock; the operands of the return are
			// evaluated after the release and are placed behind the Sync.
			key := types.ExprString(recv)
			if n := len(x.locks); n > 0 && x.locks[n-1].key == key && !x.locks[n-1].deferred && i+2 == len(list) {
				if ret, ok := list[i+1].(*ast.ReturnStmt); ok {
					fr := x.locks[n-1]
					x.t.visited[call.Pos()] = true
					x.access(At, fr.mutex, call) // Unlock()
					fr.after = append(fr.after, x.sub(func() { x.stmt(ret) })...)
					return
				}
			}
			refuse("%s: %s.Unlock() is neither the end of a Lock/Unlock span of this block nor a release directly before a return inside the innermost such span", x.p.Pos(s), key)
		}
		x.stmt(s)
	}
}

func (x *xl) sync(recv ast.Expr, at ast.Node, body []ast.Stmt, deferred bool) {
	x.rdPrefix(recv)
	l := x.lockOf(recv, at)
	ml := x.mutexLoc(recv)
	x.access(At, ml, at) // Lock() itself: an atomic operation on the mutex word, before the lock is held
	// the locked variable must keep denoting the same object inside the span
	if root := rootIdent(recv); root != nil {
		obj := x.p.objOf(root)
		for _, s := range body {
			ast.Inspect(s, func(n ast.Node) bool {
				if as, ok := n.(*ast.AssignStmt); ok {
					for _, lhs := range as.Lhs {
						if id, ok := lhs.(*ast.Ident); ok && x.p.objOf(id) == obj && obj != nil {
							refuse("%s: %s is reassigned while %s is locked", x.p.Pos(as), id.Name, types.ExprString(recv))
						}
					}
				}
				return true
			})
		}
	}
	fr := &lockFrame{key: types.ExprString(recv), deferred: deferred, mutex: ml}
	x.locks = append(x.locks, fr)
	inner := x.sub(func() {
		x.stmts(body)
		x.access(At, ml, at) // Unlock()
	})
	x.locks = x.locks[:len(x.locks)-1]
	*x.out = append(*x.out, Stmt{Kind: SSync, Lock: l, Body: inner})
	// exit paths that released the lock themselves: a thread may skip the rest
	// of the Sync body, leave it (release) and run these, then skip the rest
	*x.out = append(*x.out, fr.after...)
}

func rootIdent(e ast.Expr) *ast.Ident {
	for {
		switch v := e.(type) {
		case *ast.Ident:
			return v
		case *ast.SelectorExpr:
			e = v.X
		case *ast.IndexExpr:
			e = v.X
		case *ast.StarExpr:
			e = v.X
		case *ast.ParenExpr:
			e = v.X
		case *ast.SliceExpr:
			e = v.X
		case *ast.TypeAssertExpr:
			e = v.X
		case *ast.UnaryExpr:
			e = v.X
		default:
			return nil
		}
	}
}

func (x *xl) stmt(s ast.Stmt) {
	switch s := s.(type) {
	case nil, *ast.EmptyStmt:
	case *ast.ExprStmt:
		x.rd(s.X)
	case *ast.AssignStmt:
		x.assign(s)
	case *ast.IncDecStmt:
		x.rd(s.X)
		x.wr(s.X)
	case *ast.DeclStmt:
		gd, ok := s.Decl.(*ast.GenDecl)
		if !ok {
			return
		}
		for _, sp := range gd.Specs {
			vs, ok := sp.(*ast.ValueSpec)
			if !ok {
				continue
			}
			for _, v := range vs.Values {
				x.rd(v)
			}
			if len(vs.Values) == len(vs.Names) {
				for i, n := range vs.Names {
					x.bindLocal(n, vs.Values[i])
					x.setCtx(n, x.ctxOf(vs.Values[i]))
				}
			}
		}
	case *ast.BlockStmt:
		x.stmts(s.List)
	case *ast.IfStmt:
		x.stmt(s.Init)
		x.rd(s.Cond)
		x.stmts(s.Body.List)
		if s.Else != nil {
			x.stmt(s.Else)
		}
	case *ast.ForStmt:
		x.stmt(s.Init)
		x.star(func() {
			if s.Cond != nil {
				x.rd(s.Cond)
			}
			x.stmts(s.Body.List)
			x.stmt(s.Post)
		})
	case *ast.RangeStmt:
		x.rd(s.X)
		if s.Tok == token.DEFINE {
			if id, ok := s.Value.(*ast.Ident); ok && id.Name != "_" {
				if v, ok := x.p.objOf(id).(*types.Var); ok {
					if l := x.loc(s.X); l != nil {
						var et types.Type
						switch u := x.p.typeOf(s.X).Underlying().(type) {
						case *types.Slice:
							et = u.Elem()
						case *types.Map:
							et = u.Elem()
						case *types.Array:
							et = u.Elem()
						}
						if et != nil {
							el := l.with(step{kind: 'i', typ: et})
							if _, isPtr := et.Underlying().(*types.Pointer); isPtr {
								pt, _ := deref(et)
								x.env[v] = binding{path: el.with(step{kind: 'd', typ: pt}), ptrTo: true}
							} else if hasPointers(et, map[types.Type]bool{}) {
								x.env[v] = binding{path: el}
								if n, _ := moduleStruct(et); n != nil {
									x.whole(Rd, el, et, s.X, 0) // the loop copies each element
								}
							}
						}
					}
				}
			}
		} else {
			if s.Key != nil {
				x.wr(s.Key)
			}
			if s.Value != nil {
				x.wr(s.Value)
			}
		}
		x.star(func() { x.stmts(s.Body.List) })
	case *ast.SwitchStmt:
		x.stmt(s.Init)
		if s.Tag != nil {
			x.rd(s.Tag)
		}
		for _, c := range s.Body.List {
			cc := c.(*ast.CaseClause)
			for _, e := range cc.List {
				x.rd(e)
			}
			x.stmts(cc.Body)
		}
	case *ast.TypeSwitchStmt:
		x.stmt(s.Init)
		var src ast.Expr
		switch a := s.Assign.(type) {
		case *ast.ExprStmt:
			if ta, ok := a.X.(*ast.TypeAssertExpr); ok {
				src = ta.X
			}
		case *ast.AssignStmt:
			if ta, ok := a.Rhs[0].(*ast.TypeAssertExpr); ok {
				src = ta.X
			}
		}
		if src != nil {
			x.rd(src)
		}
		for _, c := range s.Body.List {
			cc := c.(*ast.CaseClause)
			if v, ok := x.p.implicitObj(cc).(*types.Var); ok && src != nil {
				if l := x.loc(src); l != nil {
					x.env[v] = binding{path: l}
				}
			}
			x.stmts(cc.Body)
		}
	case *ast.SelectStmt:
		for _, c := range s.Body.List {
			cc := c.(*ast.CommClause)
			x.stmt(cc.Comm)
			x.stmts(cc.Body)
		}
	case *ast.SendStmt:
		x.rd(s.Chan)
		x.rd(s.Value)
	case *ast.ReturnStmt:
		for i, r := range s.Results {
			x.lastEsc, x.lastAt = nil, nil
			x.rd(r)
			if x.esc == nil {
				continue
			}
			if c, ok := ast.Unparen(r).(*ast.CallExpr); ok && len(s.Results) == 1 && x.lastAt == ast.Node(c) {
				*x.esc = append(*x.esc, x.lastEsc...) // return f(): f's results are ours
				continue
			}
			if p := x.escaping(r); p != nil {
				*x.esc = append(*x.esc, escape{i, p})
			}
		}
	case *ast.BranchStmt:
		if s.Tok == token.GOTO || s.Label != nil {
			refuse("%s: goto / labelled branch", x.p.Pos(s))
		}
	case *ast.LabeledStmt:
		refuse("%s: labelled statement", x.p.Pos(s))
	case *ast.GoStmt:
		x.t.visited[s.Pos()] = true
		x.spawn(s.Call, s)
	case *ast.DeferStmt:
		if _, _, ok := x.mutexCallExpr(s.Call, "Unlock"); ok {
			refuse("%s: defer Unlock() that does not directly follow its Lock()", x.p.Pos(s))
		}
		if lit, ok := s.Call.Fun.(*ast.FuncLit); ok {
			// runs when the function returns; allowed only in functions that
			// take no lock themselves (then its position does not matter)
			ast.Inspect(x.curBody, func(n ast.Node) bool {
				if c, ok := n.(*ast.CallExpr); ok {
					if _, _, ok := x.mutexCallExpr(c, "Lock"); ok {
						refuse("%s: deferred closure in a function that locks", x.p.Pos(s))
					}
				}
				return true
			})
			x.closure(lit, s.Call.Args, false)
			return
		}
		x.rd(s.Call)
	default:
		refuse("%s: statement %T not understood", x.p.Pos(s), s)
	}
}

func (x *xl) assign(s *ast.AssignStmt) {
	x.lastEsc, x.lastAt = nil, nil
	for _, r := range s.Rhs {
		x.rd(r)
	}
	// contexts: which counter does the assigned context carry
	if len(s.Rhs) == len(s.Lhs) {
		cs := make([]*path, len(s.Rhs))
		for i, r := range s.Rhs {
			cs[i] = x.ctxOf(r)
		}
		for i, l := range s.Lhs {
			x.setCtx(l, cs[i])
		}
	} else if len(s.Rhs) == 1 {
		x.setCtx(s.Lhs[0], x.ctxOf(s.Rhs[0])) // ctx, cancel := context.WithTimeout(ctx, d)
	}
	var esc []escape
	if len(s.Rhs) == 1 {
		if c, ok := ast.Unparen(s.Rhs[0]).(*ast.CallExpr); ok && x.lastAt == ast.Node(c) {
			esc = x.lastEsc
		}
	}
	defer func() {
		// v := f(): v is the shared memory f handed out
		for _, e := range esc {
			if s.Tok == token.DEFINE && e.idx < len(s.Lhs) {
				if id, ok := s.Lhs[e.idx].(*ast.Ident); ok && id.Name != "_" {
					if v, ok := x.p.objOf(id).(*types.Var); ok {
						x.env[v] = binding{path: e.p}
					}
				}
			}
		}
	}()
	if s.Tok != token.ASSIGN && s.Tok != token.DEFINE { // op=
		for _, l := range s.Lhs {
			x.rd(l)
		}
	}
	for i, l := range s.Lhs {
		if id, ok := l.(*ast.Ident); ok && id.Name == "_" {
			continue
		}
		var rhs ast.Expr
		switch {
		case len(s.Rhs) == len(s.Lhs):
			rhs = s.Rhs[i]
		case len(s.Rhs) == 1 && i == 0:
			// v, ok := m[k] / x.(T) / <-ch ; or a multi-value call
			switch ast.Unparen(s.Rhs[0]).(type) {
			case *ast.IndexExpr, *ast.TypeAssertExpr:
				rhs = s.Rhs[0]
			}
		}
		if id, ok := l.(*ast.Ident); ok {
			if v, isDef := x.p.objOf(id).(*types.Var); isDef {
				if s.Tok != token.DEFINE {
					// re-assignment: the variable may denote either object; it
					// is named by itself from here on (no alias information)
					delete(x.env, v)
				} else if rhs != nil {
					x.bindLocal(id, rhs)
				} else if _, isFn := v.Type().Underlying().(*types.Signature); isFn && len(s.Rhs) == 1 {
					// a function returned by a library call (context.WithTimeout's cancel)
					if c, ok := ast.Unparen(s.Rhs[0]).(*ast.CallExpr); ok {
						if f, _ := x.p.callee(c); f != nil && !isModule(f.Pkg()) {
							x.env[v] = binding{ext: true}
						}
					}
				}
			}
		}
		x.wr(l)
	}
}

// bindLocal records what a local variable aliases when it is defined (or
// assigned) from an expression the translator can name.
func (x *xl) bindLocal(id *ast.Ident, rhs ast.Expr) {
	v, ok := x.p.objOf(id).(*types.Var)
	if !ok || id.Name == "_" {
		return
	}
	if _, glob := x.region.glob[v]; glob {
		return
	}
	delete(x.env, v)
	t := v.Type()
	switch t.Underlying().(type) {
	case *types.Pointer:
		// (a pointer to a new object is named by the variable itself: whether
		// it stays goroutine-private is decided by analyseFresh)
		if p := x.pointee(rhs); p != nil && !p.fresh {
			x.env[v] = binding{path: p, ptrTo: true}
		}
	case *types.Slice, *types.Map:
		if p := x.loc(rhs); p != nil && !p.fresh {
			x.env[v] = binding{path: p}
		} else if pub := x.publishedAs(v); pub != nil {
			// v := make(...); fill v; X.f = v — the memory filled is the
			// memory published: name it by where it is published
			x.env[v] = binding{path: pub}
		}
	case *types.Struct:
		if n, _ := moduleStruct(t); n != nil && hasPointers(t, map[types.Type]bool{}) {
			if p := x.loc(rhs); p != nil && !p.fresh {
				x.env[v] = binding{path: p} // a copy shares everything it points to
			}
		}
	case *types.Signature:
		x.bindFunc(v, rhs)
	}
}

func (x *xl) bindFunc(v types.Object, arg ast.Expr) {
	arg = ast.Unparen(arg)
	switch a := arg.(type) {
	case *ast.FuncLit:
		x.env[v] = binding{lit: a}
	case *ast.Ident:
		if f, ok := x.p.objOf(a).(*types.Func); ok {
			x.env[v] = binding{fn: f}
		} else if w, ok := x.p.objOf(a).(*types.Var); ok {
			if b, ok := x.env[w]; ok {
				x.env[v] = b
			}
		}
	case *ast.SelectorExpr:
		if sel := x.p.selOf(a); sel != nil && sel.Kind() == types.MethodVal {
			f := sel.Obj().(*types.Func)
			var rp *path
			if _, isPtr := x.p.typeOf(a.X).Underlying().(*types.Pointer); isPtr {
				rp = x.pointee(a.X)
			} else {
				rp = x.loc(a.X)
			}
			x.env[v] = binding{fn: f, fnRcv: rp}
		} else if f, ok := x.p.objOf(a.Sel).(*types.Func); ok {
			x.env[v] = binding{fn: f}
		}
	}
}

// ---------------------------------------------------------------- expressions

// rdPrefix: the reads needed to ADDRESS into e (pointers and slice headers on
// the way), not a read of e's value.
func (x *xl) rdPrefix(e ast.Expr) {
	switch e := e.(type) {
	case *ast.ParenExpr:
		x.rdPrefix(e.X)
	case *ast.Ident:
		if v, ok := x.p.objOf(e).(*types.Var); ok {
			if hasPointers(v.Type(), map[types.Type]bool{}) {
				if _, isStruct := v.Type().Underlying().(*types.Struct); !isStruct {
					x.varAccess(Rd, v, e)
				}
			}
		}
	case *ast.SelectorExpr:
		sel := x.p.selOf(e)
		if sel == nil {
			return
		}
		x.rdPrefix(e.X)
		if sel.Kind() == types.FieldVal {
			switch sel.Type().Underlying().(type) {
			case *types.Pointer, *types.Slice, *types.Map, *types.Interface, *types.Chan:
				x.access(Rd, x.loc(e), e)
			}
		}
	case *ast.IndexExpr:
		x.rd(e.Index)
		x.rdPrefix(e.X)
		if et := x.p.typeOf(e); et != nil {
			if _, isPtr := et.Underlying().(*types.Pointer); isPtr {
				x.access(Rd, x.loc(e), e) // reading the pointer stored in the element
			}
		}
	case *ast.StarExpr:
		x.rdPrefix(e.X)
	case *ast.SliceExpr:
		x.rd(e.Low)
		x.rd(e.High)
		x.rd(e.Max)
		x.rdPrefix(e.X)
	case *ast.TypeAssertExpr:
		x.rdPrefix(e.X)
	case *ast.UnaryExpr:
		x.rdPrefix(e.X)
	case *ast.CallExpr:
		x.rd(e)
	case nil:
	default:
		x.rd(e)
	}
}

// rd: evaluate e for its value.
func (x *xl) rd(e ast.Expr) {
	switch e := e.(type) {
	case nil:
	case *ast.BasicLit, *ast.ArrayType, *ast.MapType, *ast.StructType, *ast.InterfaceType, *ast.FuncType, *ast.ChanType, *ast.Ellipsis:
	case *ast.ParenExpr:
		x.rd(e.X)
	case *ast.Ident:
		v, ok := x.p.objOf(e).(*types.Var)
		if !ok {
			return
		}
		x.varAccess(Rd, v, e)
		if n, _ := moduleStruct(v.Type()); n != nil {
			x.whole(Rd, x.loc(e), v.Type(), e, 0)
		}
	case *ast.SelectorExpr:
		sel := x.p.selOf(e)
		if sel == nil { // pkg.Name
			if v, ok := x.p.objOf(e.Sel).(*types.Var); ok {
				x.varAccess(Rd, v, e)
			}
			return
		}
		x.rdPrefix(e.X)
		if sel.Kind() != types.FieldVal {
			return // method value
		}
		if n, _ := moduleStruct(sel.Type()); n != nil {
			x.whole(Rd, x.loc(e), sel.Type(), e, 0)
			return
		}
		x.access(Rd, x.loc(e), e)
	case *ast.IndexExpr:
		if x.p.isType(e.Index) {
			return
		}
		x.rd(e.Index)
		x.rdContainer(e.X)
		x.rdValue(e)
	case *ast.SliceExpr:
		x.rd(e.Low)
		x.rd(e.High)
		x.rd(e.Max)
		x.rdContainer(e.X)
	case *ast.StarExpr:
		x.rdPrefix(e.X)
		x.rdValue(e)
	case *ast.UnaryExpr:
		if e.Op == token.AND {
			if cl, ok := ast.Unparen(e.X).(*ast.CompositeLit); ok {
				x.rd(cl)
				return
			}
			x.rdAddr(e.X)
			return
		}
		x.rd(e.X)
	case *ast.BinaryExpr:
		x.rd(e.X)
		x.rd(e.Y)
	case *ast.KeyValueExpr:
		x.rd(e.Value)
	case *ast.CompositeLit:
		for _, el := range e.Elts {
			if kv, ok := el.(*ast.KeyValueExpr); ok {
				if _, isStruct := x.p.typeOf(e).Underlying().(*types.Struct); !isStruct {
					x.rd(kv.Key)
				}
				x.rd(kv.Value)
				continue
			}
			x.rd(el)
		}
	case *ast.TypeAssertExpr:
		x.rd(e.X)
	case *ast.FuncLit:
		x.star(func() { x.closure(e, nil, false) })
	case *ast.CallExpr:
		x.call(e)
	default:
		refuse("%s: expression %T not understood", x.p.Pos(e), e)
	}
}

// rdContainer: reading a slice/map/array value in order to index it.
func (x *xl) rdContainer(e ast.Expr) {
	switch ee := ast.Unparen(e).(type) {
	case *ast.Ident:
		if v, ok := x.p.objOf(ee).(*types.Var); ok {
			x.varAccess(Rd, v, ee)
		}
	case *ast.SelectorExpr:
		if sel := x.p.selOf(ee); sel != nil && sel.Kind() == types.FieldVal {
			x.rdPrefix(ee.X)
			x.access(Rd, x.loc(ee), ee)
			return
		}
		x.rd(ee)
	case *ast.StarExpr:
		x.rdPrefix(ee.X)
		x.access(Rd, x.pointee(ee.X), ee)
	default:
		x.rd(e)
	}
}

// rdValue: the read of the element / pointee that e designates.
func (x *xl) rdValue(e ast.Expr) {
	t := x.p.typeOf(e)
	if t == nil {
		return
	}
	if n, _ := moduleStruct(t); n != nil {
		x.whole(Rd, x.loc(e), t, e, 0)
		return
	}
	x.access(Rd, x.loc(e), e)
}

// rdAddr: &e — evaluates what addresses e, reads nothing of e itself.
func (x *xl) rdAddr(e ast.Expr) {
	switch e := ast.Unparen(e).(type) {
	case *ast.Ident:
	case *ast.SelectorExpr:
		x.rdPrefix(e.X)
	case *ast.IndexExpr:
		x.rd(e.Index)
		x.rdContainer(e.X)
	case *ast.StarExpr:
		x.rdPrefix(e.X)
	default:
		x.rd(e)
	}
}

func (x *xl) wr(e ast.Expr) {
	switch e := ast.Unparen(e).(type) {
	case *ast.Ident:
		if e.Name == "_" {
			return
		}
		if v, ok := x.p.objOf(e).(*types.Var); ok {
			x.varAccess(Wr, v, e)
		}
	case *ast.SelectorExpr:
		sel := x.p.selOf(e)
		if sel == nil {
			if v, ok := x.p.objOf(e.Sel).(*types.Var); ok {
				x.varAccess(Wr, v, e)
			}
			return
		}
		x.rdPrefix(e.X)
		if n, _ := moduleStruct(sel.Type()); n != nil {
			x.whole(Wr, x.loc(e), sel.Type(), e, 0)
			return
		}
		x.access(Wr, x.loc(e), e)
	case *ast.IndexExpr:
		x.rd(e.Index)
		x.rdContainer(e.X)
		if _, isMap := x.p.typeOf(e.X).Underlying().(*types.Map); isMap {
			x.access(Wr, x.loc(e.X), e) // the map itself changes
			return
		}
		x.wrValue(e)
	case *ast.StarExpr:
		x.rdPrefix(e.X)
		x.wrValue(e)
	default:
		refuse("%s: assignment target %T not understood", x.p.Pos(e), e)
	}
}

func (x *xl) wrValue(e ast.Expr) {
	t := x.p.typeOf(e)
	if n, _ := moduleStruct(t); n != nil {
		x.whole(Wr, x.loc(e), t, e, 0)
		return
	}
	x.access(Wr, x.loc(e), e)
	if _, isIdx := ast.Unparen(e).(*ast.IndexExpr); isIdx {
		x.accessElems(Wr, x.loc(e), e) // x.f[i] = v
	}
}

// elems: access to the elements of a slice value (append, copy, range, sort).
func (x *xl) elems(k Kind, e ast.Expr, at ast.Node) {
	t := x.p.typeOf(e)
	if t == nil {
		return
	}
	l := x.loc(e)
	if l == nil {
		return
	}
	if sl, ok := t.Underlying().(*types.Slice); ok {
		if n, _ := moduleStruct(sl.Elem()); n != nil {
			x.whole(k, l.with(step{kind: 'i', typ: sl.Elem()}), sl.Elem(), at, 0)
			return
		}
	}
	x.access(k, l, at)
	if k == Wr {
		x.accessElems(Wr, l, at) // copy(dst, ...) overwrites dst's memory in place
	}
}

// ---------------------------------------------------------------- calls

func (x *xl) call(c *ast.CallExpr) {
	fun := ast.Unparen(c.Fun)
	if x.p.isType(fun) { // conversion
		for _, a := range c.Args {
			x.rd(a)
		}
		return
	}
	if lit, ok := fun.(*ast.FuncLit); ok {
		x.closure(lit, c.Args, true)
		return
	}
	if id, ok := fun.(*ast.Ident); ok {
		if b, ok := x.p.objOf(id).(*types.Builtin); ok {
			x.builtin(b.Name(), c)
			return
		}
	}
	f, recv := x.p.callee(c)
	if f == nil {
		// a call through a function value
		var v types.Object
		switch fn := fun.(type) {
		case *ast.Ident:
			v = x.p.objOf(fn)
		case *ast.SelectorExpr:
			v = x.p.objOf(fn.Sel)
			x.rdPrefix(fn.X)
		}
		b, ok := x.env[v]
		switch {
		case ok && b.fn != nil:
			x.args(c.Args)
			x.inline(b.fn, nil, b.fnRcv, c)
		case ok && b.lit != nil:
			x.closure(b.lit, c.Args, true)
		case ok && b.ext:
			x.argsOpaque(c.Args)
		default:
			refuse("%s: call through the function value %s, which is not bound to a known function", x.p.Pos(c), types.ExprString(fun))
		}
		return
	}
	name := x.p.FuncName(f)
	pkgPath := ""
	if f.Pkg() != nil {
		pkgPath = f.Pkg().Path()
	}
	switch {
	case pkgPath == "sync":
		x.syncCall(f, recv, c)
		return
	case pkgPath == "sync/atomic":
		x.t.visited[c.Pos()] = true
		if len(c.Args) > 0 {
			x.rdPrefix(c.Args[0])
			x.access(At, x.pointee(c.Args[0]), c)
			x.args(c.Args[1:])
		}
		return
	case pkgPath == Module+"/wctx":
		// context plumbing; the RPC counter is the one piece of shared memory
		x.args(c.Args)
		switch f.Name() {
		case "CounterAdd":
			x.access(At, x.ctxOf(c.Args[0]), c)
		case "Counter":
			x.access(Rd, x.ctxOf(c.Args[0]), c)
		}
		return
	case pkgPath == "golang.org/x/sync/errgroup":
		x.t.visited[c.Pos()] = true
		switch f.Name() {
		case "Go":
			x.spawn(c, c)
		case "Wait", "SetLimit":
		default:
			refuse("%s: errgroup.%s", x.p.Pos(c), f.Name())
		}
		return
	}
	// interface method: bind to the declared implementation
	if recv != nil {
		rt := x.p.typeOf(recv)
		if _, isIface := rt.Underlying().(*types.Interface); isIface {
			tn := typeName(rt)
			if connIfaces[tn] || connIfaces[rt.String()] {
				x.rdPrefix(recv)
				x.argsOpaque(c.Args)
				if l := x.loc(recv); l != nil {
					q := l.with(step{kind: 'f', name: "wire", owner: "wpg.Conn", typ: types.Typ[types.Int]})
					x.access(Wr, q, c)
				}
				return
			}
			if impl, ok := ifaceBinding[tn]; ok {
				m := x.lookupMethod(impl, f.Name())
				if m == nil {
					refuse("%s: %s has no method %s", x.p.Pos(c), impl, f.Name())
				}
				x.rd(recv)
				x.args(c.Args)
				l := x.loc(recv)
				var rp *path
				if l != nil {
					if strings.HasPrefix(impl, "*") {
						rp = l.with(step{kind: 'd'})
					} else {
						rp = l
					}
				}
				x.inline(m, c.Args, rp, c)
				return
			}
			if isModule(f.Pkg()) {
				refuse("%s: call of %s through interface %s, which has no declared implementation", x.p.Pos(c), f.Name(), tn)
			}
		}
	}
	if isModule(f.Pkg()) {
		if s, ok := summaries[name]; ok {
			if recv != nil {
				x.rdPrefix(recv)
				if s.effect == "w" {
					rt, _ := deref(x.p.typeOf(recv))
					x.whole(Wr, x.base(recv), rt, c, 0)
				}
			}
			x.argsOpaque(c.Args)
			return
		}
		if _, ok := opaquePkgs[short(pkgPath)]; ok {
			if recv != nil {
				x.rd(recv)
			}
			x.argsOpaque(c.Args)
			return
		}
		// translate the callee in place
		var rp *path
		if recv != nil {
			sig := f.Type().(*types.Signature)
			if _, ptrRecv := sig.Recv().Type().(*types.Pointer); ptrRecv {
				x.rdPrefix(recv)
				rp = x.base(recv)
			} else {
				x.rd(recv) // a value receiver copies the struct
				rp = x.base(recv)
			}
		}
		x.args(c.Args)
		x.inline(f, c.Args, rp, c)
		return
	}
	// external function or method: opaque, reads its operands
	if recv != nil {
		x.rd(recv)
	}
	x.argsOpaque(c.Args)
	if i, ok := extWriteArg(f); ok && i < len(c.Args) {
		x.elems(Wr, c.Args[i], c)
		x.elems(Rd, c.Args[i], c)
	}
}

// args evaluates call arguments.
func (x *xl) args(args []ast.Expr) {
	for _, a := range args {
		x.rd(a)
	}
}

// argsOpaque: arguments of a call into code the translator does not see: a
// pointer to a module struct handed to it is read as a whole.
func (x *xl) argsOpaque(args []ast.Expr) {
	for _, a := range args {
		x.rd(a)
		t := x.p.typeOf(a)
		if et, isPtr := deref(t); isPtr {
			if n, _ := moduleStruct(et); n != nil {
				x.whole(Rd, x.pointee(a), et, a, 0)
			}
		}
	}
}

func (x *xl) lookupMethod(impl, name string) *types.Func {
	ptr := strings.HasPrefix(impl, "*")
	tn := strings.TrimPrefix(impl, "*")
	i := strings.LastIndex(tn, ".")
	for _, pk := range x.p.pkgs {
		if short(pk.PkgPath) != tn[:i] {
			continue
		}
		obj := pk.Types.Scope().Lookup(tn[i+1:])
		if obj == nil {
			return nil
		}
		var t types.Type = obj.Type()
		if ptr {
			t = types.NewPointer(t)
		}
		o, _, _ := types.LookupFieldOrMethod(t, true, pk.Types, name)
		f, _ := o.(*types.Func)
		return f
	}
	return nil
}

func (x *xl) syncCall(f *types.Func, recv ast.Expr, c *ast.CallExpr) {
	x.t.visited[c.Pos()] = true
	sig := f.Type().(*types.Signature)
	var rt types.Type
	if sig.Recv() != nil {
		rt, _ = deref(sig.Recv().Type())
	}
	switch {
	case isSyncType(rt, "Mutex"):
		refuse("%s: %s.%s() outside the Lock/Unlock shapes the translator knows", x.p.Pos(c), types.ExprString(recv), f.Name())
	case isSyncType(rt, "Once") && f.Name() == "Do":
		x.rdPrefix(recv)
		x.access(At, x.base(recv), c)
		if lit, ok := ast.Unparen(c.Args[0]).(*ast.FuncLit); ok {
			x.closure(lit, nil, true)
		} else {
			refuse("%s: Once.Do of something else than a closure", x.p.Pos(c))
		}
	case isSyncType(rt, "WaitGroup"):
		// Add/Done/Wait: join edges, handled where the fork is
	default:
		refuse("%s: sync.%s is not modelled", x.p.Pos(c), f.Name())
	}
}

func (x *xl) builtin(name string, c *ast.CallExpr) {
	switch name {
	case "append":
		// growing copies the elements; the appended elements land in memory
		// beyond the slice's length, which only becomes reachable through the
		// slice header the result is assigned to (a write of that location)
		x.rd(c.Args[0])
		x.elems(Rd, c.Args[0], c)
		for i, a := range c.Args[1:] {
			x.rd(a)
			if c.Ellipsis.IsValid() && i == len(c.Args)-2 {
				x.elems(Rd, a, c)
			}
		}
	case "copy":
		x.rd(c.Args[0])
		x.rd(c.Args[1])
		x.elems(Wr, c.Args[0], c)
		x.elems(Rd, c.Args[1], c)
	case "delete":
		x.rd(c.Args[1])
		x.rdContainer(c.Args[0])
		x.access(Wr, x.loc(c.Args[0]), c)
	case "len", "cap", "min", "max", "panic", "print", "println", "close", "clear":
		for _, a := range c.Args {
			x.rd(a)
		}
	case "make", "new":
		for _, a := range c.Args[1:] {
			x.rd(a)
		}
	default:
		refuse("%s: builtin %s", x.p.Pos(c), name)
	}
}

// closure translates a function literal in place (called here, deferred, or
// handed to a library that may call it).
func (x *xl) closure(lit *ast.FuncLit, args []ast.Expr, bind bool) {
	x.args(args)
	if bind && lit.Type.Params != nil {
		i := 0
		for _, fld := range lit.Type.Params.List {
			for _, n := range fld.Names {
				if i < len(args) {
					x.bindParam(x.p.objOf(n), args[i])
				}
				i++
			}
		}
	}
	x.stack = append(x.stack, x.p.litName[lit])
	saved, savedType := x.curBody, x.curType
	x.curBody, x.curType = lit.Body, lit.Type
	x.analyseFresh(lit.Type, lit.Body)
	x.stmts(lit.Body.List)
	x.curBody, x.curType = saved, savedType
	x.stack = x.stack[:len(x.stack)-1]
}

func (x *xl) bindParam(obj types.Object, arg ast.Expr) {
	v, ok := obj.(*types.Var)
	if !ok || v.Name() == "_" {
		return
	}
	delete(x.env, v)
	switch v.Type().Underlying().(type) {
	case *types.Pointer:
		if p := x.pointee(arg); p != nil {
			x.env[v] = binding{path: p, ptrTo: true}
		}
	case *types.Slice, *types.Map, *types.Interface:
		if p := x.loc(arg); p != nil {
			x.env[v] = binding{path: p}
		}
	case *types.Struct:
		if n, _ := moduleStruct(v.Type()); n != nil {
			if p := x.loc(arg); p != nil {
				x.env[v] = binding{path: p}
			}
		}
	case *types.Signature:
		x.bindFunc(v, arg)
	}
}

// inline translates the body of f at the call site.
func (x *xl) inline(f *types.Func, args []ast.Expr, recvPath *path, at ast.Node) {
	decl := x.p.decls[f]
	if decl == nil {
		refuse("%s: no source for %s", x.p.Pos(at), x.p.FuncName(f))
	}
	if x.active[f] {
		refuse("%s: recursive call of %s", x.p.Pos(at), x.p.FuncName(f))
	}
	if len(x.stack) > 40 {
		refuse("%s: call depth", x.p.Pos(at))
	}
	// bind receiver and parameters (arguments are evaluated in the caller's environment first)
	type pb struct {
		obj types.Object
		b   binding
		ok  bool
	}
	var binds []pb
	if decl.Recv != nil && len(decl.Recv.List) > 0 && len(decl.Recv.List[0].Names) > 0 {
		ro := x.p.objOf(decl.Recv.List[0].Names[0])
		if recvPath != nil {
			_, isPtr := ro.Type().Underlying().(*types.Pointer)
			binds = append(binds, pb{ro, binding{path: recvPath, ptrTo: isPtr}, true})
		} else {
			binds = append(binds, pb{ro, binding{}, false})
		}
	}
	type cb struct {
		obj types.Object
		p   *path
	}
	var cbs []cb
	i := 0
	for _, fld := range decl.Type.Params.List {
		for _, n := range fld.Names {
			obj := x.p.objOf(n)
			if obj != nil && isCtx(obj.Type()) {
				var cp *path
				if i < len(args) {
					cp = x.ctxOf(args[i])
				}
				cbs = append(cbs, cb{obj, cp})
			}
			if i < len(args) && obj != nil {
				saved := x.env[obj]
				_, had := x.env[obj]
				x.bindParam(obj, args[i])
				b, ok := x.env[obj]
				if had {
					x.env[obj] = saved
				} else {
					delete(x.env, obj)
				}
				binds = append(binds, pb{obj, b, ok})
			} else if obj != nil {
				binds = append(binds, pb{obj, binding{}, false})
			}
			i++
		}
	}
	for _, b := range binds {
		if b.ok {
			x.env[b.obj] = b.b
		} else {
			delete(x.env, b.obj)
		}
	}
	for _, c := range cbs {
		if c.p != nil {
			x.ctxc[c.obj] = c.p
		} else {
			delete(x.ctxc, c.obj)
		}
	}
	x.active[f] = true
	x.stack = append(x.stack, x.p.FuncName(f))
	saved, savedEsc, savedLocks, savedType := x.curBody, x.esc, x.locks, x.curType
	var esc []escape
	x.curBody, x.esc, x.locks, x.curType = decl.Body, &esc, nil, decl.Type
	x.analyseFresh(decl.Type, decl.Body)
	x.stmts(decl.Body.List)
	x.curBody, x.esc, x.locks, x.curType = saved, savedEsc, savedLocks, savedType
	x.stack = x.stack[:len(x.stack)-1]
	delete(x.active, f)
	// a returned reference to shared memory: the caller may read it from here
	// on, outside every lock the callee held
	for _, e := range esc {
		x.accessElems(Rd, e.p, at)
	}
	x.lastEsc, x.lastAt = esc, at
}

// escaping: the returned expression e is a slice or map stored in a field of
// an object that is not private to this goroutine — the field itself, a
// reslice or a conversion of it, or a local that aliases it; NOT a copy
// (make+copy, append([]T(nil), ...) give fresh memory).  Slices of module
// structs are left out: their elements' fields are tracked as such.
func (x *xl) escaping(e ast.Expr) *path {
	t := x.p.typeOf(e)
	if t == nil {
		return nil
	}
	switch u := t.Underlying().(type) {
	case *types.Slice:
		if n, _ := moduleStruct(u.Elem()); n != nil {
			return nil
		}
	case *types.Map:
	default:
		return nil
	}
	p := x.loc(e)
	if p == nil || x.freshPath(p) {
		return nil
	}
	steps := p.steps
	for len(steps) > 0 && steps[len(steps)-1].kind != 'f' {
		steps = steps[:len(steps)-1]
	}
	if len(steps) == 0 {
		return nil // a plain variable: its memory is accounted for where it was obtained
	}
	if x.recvOf(p, steps[:len(steps)-1], false).Kind == ROwn {
		return nil
	}
	return p
}

// accessElems: an access to the memory a slice/map field points to (class
// <field>[]), as opposed to the field itself.
func (x *xl) accessElems(k Kind, p *path, at ast.Node) {
	if p == nil {
		return
	}
	steps := p.steps
	for len(steps) > 0 && steps[len(steps)-1].kind != 'f' {
		steps = steps[:len(steps)-1]
	}
	if len(steps) == 0 {
		return
	}
	f := steps[len(steps)-1]
	switch f.typ.Underlying().(type) {
	case *types.Slice, *types.Map:
	default:
		return
	}
	x.emit(Access{Kind: k, Cls: f.owner + "." + f.name + "[]", Recv: x.recvOf(p, steps[:len(steps)-1], false),
		Path: append([]string{}, x.stack...), Pos: x.p.Pos(at)})
}

// ---------------------------------------------------------------- goroutines

// joined: the function being translated waits for the goroutines it starts.
func (x *xl) joined() bool {
	found := false
	ast.Inspect(x.curBody, func(n ast.Node) bool {
		if c, ok := n.(*ast.CallExpr); ok {
			if f, _ := x.p.callee(c); f != nil && f.Name() == "Wait" && f.Pkg() != nil &&
				(f.Pkg().Path() == "golang.org/x/sync/errgroup" || f.Pkg().Path() == "sync") {
				found = true
			}
		}
		return !found
	})
	return found
}

// spawn: `go call` or `eg.Go(closure)`.
func (x *xl) spawn(c *ast.CallExpr, at ast.Node) {
	var lit *ast.FuncLit
	var goCall *ast.CallExpr
	if f, _ := x.p.callee(c); f != nil && f.Name() == "Go" && f.Pkg() != nil && f.Pkg().Path() == "golang.org/x/sync/errgroup" {
		l, ok := ast.Unparen(c.Args[0]).(*ast.FuncLit)
		if !ok {
			refuse("%s: errgroup.Go of something else than a closure", x.p.Pos(c))
		}
		lit = l
	} else if l, ok := ast.Unparen(c.Fun).(*ast.FuncLit); ok {
		lit = l
		x.args(c.Args)
	} else {
		goCall = c
	}
	if x.region.noFork {
		return // the forking function's own role: its closures are the other roles
	}
	if x.joined() {
		// a fork/join span: its own region (once); here the children run in
		// sequence as part of the enclosing goroutine
		x.t.region(x.curBody, x.curType, x.stack[len(x.stack)-1])
		if lit != nil {
			x.closure(lit, nil, false)
		} else {
			x.rd(goCall)
		}
		return
	}
	// never joined: a role of its own in the current region, any number of instances
	name := ""
	body := x.sub(func() {
		if lit != nil {
			name = x.p.litName[lit]
			for _, v := range x.captured(lit) {
				if _, ok := x.region.glob[v]; !ok {
					x.region.shared[v] = x.varName(v.(*types.Var))
				}
				x.shareCounter(x.ctxc[v])
			}
			x.closure(lit, nil, false)
		} else {
			f, _ := x.p.callee(goCall)
			if f != nil {
				name = x.p.FuncName(f)
			}
			for _, a := range goCall.Args {
				if isCtx(x.p.typeOf(a)) {
					x.shareCounter(x.ctxOf(a))
				}
			}
			x.rd(goCall)
		}
	})
	rn := "go " + name + " @" + x.p.Pos(at)
	for _, r := range x.region.hoisted {
		if r.Name == rn && shapeKey(r.Body) == shapeKey(body) {
			return // the same go statement reached again by another call path, same bindings
		}
	}
	x.region.hoisted = append(x.region.hoisted, Role{Name: rn, Repl: true, Body: body})
}

// captured: variables of enclosing functions a closure refers to.
func (x *xl) captured(lit *ast.FuncLit) []types.Object {
	seen := map[types.Object]bool{}
	var out []types.Object
	ast.Inspect(lit.Body, func(n ast.Node) bool {
		id, ok := n.(*ast.Ident)
		if !ok {
			return true
		}
		v, ok := x.p.objOf(id).(*types.Var)
		if !ok || v.IsField() || seen[v] {
			return true
		}
		if v.Pkg() != nil && v.Parent() == v.Pkg().Scope() {
			return true
		}
		if v.Pos() >= lit.Pos() && v.Pos() <= lit.End() {
			return true // declared inside the closure
		}
		seen[v] = true
		out = append(out, v)
		return true
	})
	return out
}

// region builds the region of one fork/join span: the function `body` forks
// closures (errgroup.Go, go) and waits for them.
func (t *translator) region(body ast.Node, ft *ast.FuncType, fname string) {
	if t.done[fname] {
		return
	}
	t.done[fname] = true
	rc := &regionCtx{name: fname, glob: map[types.Object]string{}, iter: map[types.Object]bool{},
		shared: map[types.Object]string{}, distinct: map[types.Object]bool{}}
	probe := t.newXL(rc)
	// fork sites with their innermost enclosing loop
	type site struct {
		lit  *ast.FuncLit
		call *ast.CallExpr
		loop ast.Node
	}
	var sites []site
	var loops []ast.Node
	var walk func(n ast.Node)
	walk = func(n ast.Node) {
		ast.Inspect(n, func(m ast.Node) bool {
			switch v := m.(type) {
			case *ast.FuncLit:
				return false
			case *ast.ForStmt:
				loops = append(loops, v)
				walk(v.Body)
				loops = loops[:len(loops)-1]
				return false
			case *ast.RangeStmt:
				loops = append(loops, v)
				walk(v.Body)
				loops = loops[:len(loops)-1]
				return false
			case *ast.GoStmt:
				var loop ast.Node
				if len(loops) > 0 {
					loop = loops[len(loops)-1]
				}
				if l, ok := ast.Unparen(v.Call.Fun).(*ast.FuncLit); ok {
					sites = append(sites, site{lit: l, call: v.Call, loop: loop})
				} else {
					sites = append(sites, site{call: v.Call, loop: loop})
				}
				return false
			case *ast.CallExpr:
				if f, _ := t.p.callee(v); f != nil && f.Name() == "Go" && f.Pkg() != nil && f.Pkg().Path() == "golang.org/x/sync/errgroup" {
					var loop ast.Node
					if len(loops) > 0 {
						loop = loops[len(loops)-1]
					}
					if l, ok := ast.Unparen(v.Args[0]).(*ast.FuncLit); ok {
						sites = append(sites, site{lit: l, call: v, loop: loop})
					}
					return false
				}
			}
			return true
		})
	}
	walk(body)
	for _, s := range sites {
		if s.lit == nil {
			continue
		}
		for _, v := range probe.captured(s.lit) {
			inLoop := false
			if s.loop != nil {
				var lb *ast.BlockStmt
				switch l := s.loop.(type) {
				case *ast.ForStmt:
					lb = l.Body
				case *ast.RangeStmt:
					lb = l.Body
				}
				inLoop = v.Pos() >= lb.Pos() && v.Pos() <= lb.End()
			}
			if inLoop {
				rc.iter[v] = true
			} else {
				rc.glob[v] = fname + "." + v.Name()
			}
		}
	}
	// a context parameter of the forking function carries the caller's counter
	ctxParams := func(x *xl) {
		if ft == nil || ft.Params == nil {
			return
		}
		for _, fld := range ft.Params.List {
			for _, n := range fld.Names {
				if obj := t.p.objOf(n); obj != nil && isCtx(obj.Type()) {
					if v, ok := obj.(*types.Var); ok {
						x.ctxc[obj] = x.rootPath(v).with(counterStep)
					}
				}
			}
		}
	}
	nshared := -1
build:
	rc.hoisted = nil
	rc.shared = map[types.Object]string{}
	for k, v := range rc.counters {
		rc.shared[k] = v
	}
	var roles []Role
	for _, s := range sites {
		x := t.newXL(rc)
		x.stack = []string{fname}
		x.curBody, x.curType = body, ft
		ctxParams(x)
		var list []Stmt
		x.out = &list
		name := ""
		if s.lit != nil {
			name = t.p.litName[s.lit]
			x.closure(s.lit, nil, false)
		} else {
			if f, _ := t.p.callee(s.call); f != nil {
				name = "go " + t.p.FuncName(f)
			}
			x.rd(s.call)
		}
		roles = append(roles, Role{Name: name, Repl: s.loop != nil, Body: list})
	}
	// the forking function itself while its children run: the statements that fork
	px := t.newXL(rc)
	px.stack = []string{fname}
	px.curBody, px.curType = body, ft
	ctxParams(px)
	rc.noFork = true
	var plist []Stmt
	px.out = &plist
	var blk *ast.BlockStmt
	switch b := body.(type) {
	case *ast.BlockStmt:
		blk = b
	}
	if blk != nil {
		// from the first statement that forks up to the statement that waits
		px.analyseFresh(nil, blk)
		contains := func(s ast.Stmt, pred func(ast.Node) bool) bool {
			found := false
			ast.Inspect(s, func(n ast.Node) bool {
				if n != nil && pred(n) {
					found = true
				}
				return !found
			})
			return found
		}
		isFork := func(n ast.Node) bool {
			for _, st := range sites {
				if n == ast.Node(st.call) {
					return true
				}
			}
			return false
		}
		isWait := func(n ast.Node) bool {
			if c, ok := n.(*ast.CallExpr); ok {
				if f, _ := t.p.callee(c); f != nil && f.Name() == "Wait" && f.Pkg() != nil &&
					(f.Pkg().Path() == "golang.org/x/sync/errgroup" || f.Pkg().Path() == "sync") {
					return true
				}
			}
			return false
		}
		first, last := -1, len(blk.List)
		for i, s := range blk.List {
			if first < 0 && contains(s, isFork) {
				first = i
			}
			if first >= 0 && contains(s, isWait) {
				last = i
				break
			}
		}
		if first >= 0 {
			px.stmts(blk.List[first:last])
		}
	}
	rc.noFork = false
	if nshared != len(rc.counters) {
		// a step's counter turned out to be handed to a goroutine nobody waits
		// for after accesses to it had been classified as private: translate
		// again with that known
		nshared = len(rc.counters)
		goto build
	}
	roles = append(roles, Role{Name: fname + " (while its goroutines run)", Repl: false, Body: plist})
	roles = append(roles, rc.hoisted...)
	t.regions = append(t.regions, Region{Name: fname, Roles: roles})
}

func (t *translator) newXL(rc *regionCtx) *xl {
	return &xl{p: t.p, t: t, region: rc, env: map[types.Object]binding{}, fresh: map[types.Object]bool{}, alloc: map[types.Object]bool{},
		declFn: map[types.Object]string{}, active: map[*types.Func]bool{}, ctxc: map[types.Object]*path{}}
}

// Translate builds the skeleton of the repository at repo.
func Translate(repo string) (sk *Skeleton, err error) {
	p, err := Load(repo)
	if err != nil {
		return nil, err
	}
	defer func() {
		if r := recover(); r != nil {
			if rf, ok := r.(Refusal); ok {
				sk, err = nil, rf
				return
			}
			panic(r)
		}
	}()
	t := &translator{p: p, done: map[string]bool{}, visited: map[token.Pos]bool{}}
	for _, e := range entries {
		var fn *types.Func
		for f := range p.decls {
			if p.FuncName(f) == e.fn {
				fn = f
			}
		}
		if fn == nil {
			refuse("entry function %s not found", e.fn)
		}
		decl := p.decls[fn]
		rc := &regionCtx{name: e.region, glob: map[types.Object]string{}, iter: map[types.Object]bool{},
			shared: map[types.Object]string{}, distinct: map[types.Object]bool{}}
		for _, fld := range decl.Type.Params.List {
			for _, n := range fld.Names {
				for _, d := range e.distinct {
					if n.Name == d {
						rc.distinct[p.objOf(n)] = true
					}
				}
			}
		}
		t.done[e.region] = true
		var list []Stmt
		for nshared := -1; nshared != len(rc.counters); {
			// (again when a step's counter turned out to be handed to a goroutine
			// nobody waits for after accesses to it had been classified as private)
			nshared = len(rc.counters)
			rc.hoisted, list = nil, nil
			rc.shared = map[types.Object]string{}
			for k, v := range rc.counters {
				rc.shared[k] = v
			}
			x := t.newXL(rc)
			x.out = &list
			x.inline(fn, nil, nil, decl)
		}
		roles := []Role{{Name: e.fn, Repl: e.repl, Body: list}}
		roles = append(roles, rc.hoisted...)
		t.regions = append([]Region{{Name: e.region, Roles: roles}}, t.regions...)
	}
	sk = &Skeleton{Regions: t.regions}
	sk.Sites = t.sites()
	for _, s := range sk.Sites {
		if !s.Visited && s.Scope == "" {
			refuse("%s: %s is not reached from the anchored entry points (the skeleton would silently miss it)", s.Pos, s.What)
		}
	}
	for gi := range sk.Regions {
		for ri := range sk.Regions[gi].Roles {
			sk.Regions[gi].Roles[ri].Body = compact(sk.Regions[gi].Roles[ri].Body)
		}
	}
	return sk, nil
}

// sites lists every synchronisation call of the anchored files.
func (t *translator) sites() []Site {
	var out []Site
	for _, f := range t.p.allFiles {
		fname := t.p.fileOf[f]
		anch := false
		for _, a := range AnchoredFiles {
			if a == fname {
				anch = true
			}
		}
		if !anch {
			continue
		}
		for _, d := range f.Decls {
			fd, ok := d.(*ast.FuncDecl)
			if !ok || fd.Body == nil {
				continue
			}
			scope := scopeOf(t.p.encl[fd])
			ast.Inspect(fd.Body, func(n ast.Node) bool {
				switch v := n.(type) {
				case *ast.GoStmt:
					out = append(out, Site{Pos: t.p.Pos(v), What: "go statement in " + t.p.encl[fd], Visited: t.visited[v.Pos()], Scope: scope})
				case *ast.CallExpr:
					if fn, _ := t.p.callee(v); fn != nil && fn.Pkg() != nil {
						switch fn.Pkg().Path() {
						case "sync", "sync/atomic", "golang.org/x/sync/errgroup":
							if fn.Pkg().Path() == "sync" && fn.Type().(*types.Signature).Recv() != nil {
								if rt, _ := deref(fn.Type().(*types.Signature).Recv().Type()); isSyncType(rt, "WaitGroup") {
									return true
								}
							}
							out = append(out, Site{Pos: t.p.Pos(v), What: fmt.Sprintf("%s in %s", fn.FullName(), t.p.encl[fd]),
								Visited: t.visited[v.Pos()], Scope: scope})
						}
					}
				}
				return true
			})
		}
	}
	sort.Slice(out, func(i, j int) bool { return out[i].Pos < out[j].Pos })
	return out
}

// compact drops exact repetitions of an access inside one statement list (the
// same site, kind, class and receiver under the same locks say nothing new).
func compact(ss []Stmt) []Stmt {
	seen := map[string]bool{}
	var out []Stmt
	for _, s := range ss {
		switch s.Kind {
		case SAcc:
			k := fmt.Sprint(s.Acc.Kind, s.Acc.Cls, s.Acc.Recv, s.Acc.Pos, s.Acc.Path)
			if seen[k] {
				continue
			}
			seen[k] = true
			out = append(out, s)
		default:
			s.Body = compact(s.Body)
			if len(s.Body) > 0 || s.Kind == SSync {
				out = append(out, s)
			}
		}
	}
	return out
}

// publishedAs: the function being translated stores the local v, as it is,
// into a field (X.f = v); returns that field's location.
func (x *xl) publishedAs(v *types.Var) *path {
	var found *path
	ast.Inspect(x.curBody, func(n ast.Node) bool {
		if found != nil {
			return false
		}
		as, ok := n.(*ast.AssignStmt)
		if !ok || as.Tok != token.ASSIGN || len(as.Lhs) != len(as.Rhs) {
			return true
		}
		for i, r := range as.Rhs {
			id, ok := ast.Unparen(r).(*ast.Ident)
			if !ok || x.p.objOf(id) != types.Object(v) {
				continue
			}
			if sel, ok := ast.Unparen(as.Lhs[i]).(*ast.SelectorExpr); ok {
				if p := x.loc(sel); p != nil && !x.freshPath(p) {
					found = p
				}
			}
		}
		return true
	})
	return found
}

// shapeKey: a role body up to the call paths of its accesses.
func shapeKey(ss []Stmt) string {
	var sb strings.Builder
	for _, s := range ss {
		switch s.Kind {
		case SAcc:
			fmt.Fprintf(&sb, "%v %s %v %s;", s.Acc.Kind, s.Acc.Cls, s.Acc.Recv, s.Acc.Pos)
		case SSync:
			fmt.Fprintf(&sb, "sync %s %v {%s}", s.Lock.Cls, s.Lock.Recv, shapeKey(s.Body))
		case SStar:
			fmt.Fprintf(&sb, "star {%s}", shapeKey(s.Body))
		}
	}
	return sb.String()
}

// ---------------------------------------------------------------- context values
//
// The one context value that is memory shared between goroutines is the RPC
// counter of a step: Task.Converge stores &nrpc with wctx.WithCounter, every
// Client.do adds to it atomically through wctx.CounterAdd(ctx, 1), the step
// reads it with a plain load in wctx.Counter(ctx).  The translator follows
// which counter a context carries along assignments, derived contexts
// (wctx.With*, context.With*), calls, closures and go statements.

func isCtx(t types.Type) bool { return t != nil && t.String() == "context.Context" }

var counterStep = step{kind: 'f', name: "counter", owner: "wctx", typ: types.Typ[types.Uint64]}

// ctxOf: the counter location the context value of e carries (nil: none known).
func (x *xl) ctxOf(e ast.Expr) *path {
	switch e := ast.Unparen(e).(type) {
	case *ast.Ident:
		if v, ok := x.p.objOf(e).(*types.Var); ok {
			return x.ctxc[v]
		}
	case *ast.CallExpr:
		f, _ := x.p.callee(e)
		if f == nil || f.Pkg() == nil || len(e.Args) == 0 {
			return nil
		}
		switch f.Pkg().Path() {
		case Module + "/wctx":
			if f.Name() == "WithCounter" && len(e.Args) == 2 {
				if p := x.pointee(e.Args[1]); p != nil {
					return p.with(counterStep)
				}
				return nil
			}
			if strings.HasPrefix(f.Name(), "With") {
				return x.ctxOf(e.Args[0])
			}
		case "context":
			if strings.HasPrefix(f.Name(), "With") {
				return x.ctxOf(e.Args[0])
			}
		}
	}
	return nil
}

func (x *xl) setCtx(lhs ast.Expr, p *path) {
	id, ok := ast.Unparen(lhs).(*ast.Ident)
	if !ok || id.Name == "_" {
		return
	}
	if v, ok := x.p.objOf(id).(*types.Var); ok && isCtx(v.Type()) {
		if p == nil {
			delete(x.ctxc, v)
		} else {
			x.ctxc[v] = p
		}
	}
}

// shareCounter: the counter carried by a context handed to a goroutine nobody
// waits for is no longer private to the step that owns it.
func (x *xl) shareCounter(p *path) {
	if p == nil || p.root == nil {
		return
	}
	if _, ok := x.region.glob[p.root]; ok {
		return
	}
	if v, ok := p.root.(*types.Var); ok {
		if _, ok := x.region.counters[v]; !ok {
			if x.region.counters == nil {
				x.region.counters = map[types.Object]string{}
			}
			x.region.counters[v] = x.varName(v)
			x.region.shared[v] = x.region.counters[v]
		}
	}
}
