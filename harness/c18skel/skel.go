// Package c18skel extracts the synchronisation skeleton of shovel's indexing
// pipeline (property C18) from the Go source and prints it as Coq data for
// Model/Lockset.v.  It is shared by the translator (cmd/c18-translate, which
// writes coq/Gen/Skeleton.v) and by the driver (cmd/c18, which recomputes the
// pairs the checker rejects and matches race-detector reports to accesses).
package c18skel

import (
	"fmt"
	"sort"
	"strings"
)

type Kind int

const (
	Rd Kind = iota
	Wr
	At
)

func (k Kind) String() string { return [...]string{"Rd", "Wr", "At"}[k] }

type RecvKind int

const (
	RGlob RecvKind = iota
	RVar
	ROwn
)

type Recv struct {
	Kind RecvKind
	Name string
}

func (r Recv) Coq() string {
	switch r.Kind {
	case RGlob:
		return fmt.Sprintf("(RGlob %q)", r.Name)
	case RVar:
		return fmt.Sprintf("(RVar %q)", r.Name)
	}
	return "ROwn"
}

func (r Recv) String() string {
	switch r.Kind {
	case RGlob:
		return "glob:" + r.Name
	case RVar:
		return "var:" + r.Name
	}
	return "own"
}

type Lock struct {
	Cls  string
	Recv Recv
	Pos  string
}

type Access struct {
	Kind Kind
	Cls  string
	Recv Recv
	Path []string // call path: role entry ... function containing the access
	Pos  string   // file:line relative to the repository
}

type StmtKind int

const (
	SAcc StmtKind = iota
	SSync
	SStar
)

type Stmt struct {
	Kind StmtKind
	Acc  Access
	Lock Lock
	Body []Stmt
}

type Role struct {
	Name string
	Repl bool
	Body []Stmt
}

type Region struct {
	Name  string
	Roles []Role
}

type Skeleton struct {
	Regions []Region
	// every synchronisation call site of the anchored files: visited (part of
	// the skeleton) or declared out of scope
	Sites []Site
}

type Site struct {
	Pos     string
	What    string
	Visited bool
	Scope   string // reason when out of scope
}

// ---------------------------------------------------------------- Coq printer

func coqStrList(xs []string) string {
	q := make([]string, len(xs))
	for i, x := range xs {
		q[i] = fmt.Sprintf("%q", x)
	}
	return "[" + strings.Join(q, "; ") + "]"
}

type coqPrinter struct {
	names map[string]string // interned Coq terms: definition text -> name
	order []string
	count map[string]int
}

// intern gives a generated definition to a repeated term (strings are slow
// to parse; the skeleton repeats a few hundred of them thousands of times).
func (cp *coqPrinter) intern(prefix, typ, term string) string {
	k := typ + "|" + term
	if n, ok := cp.names[k]; ok {
		return n
	}
	cp.count[prefix]++
	n := fmt.Sprintf("%s%d", prefix, cp.count[prefix])
	cp.names[k] = n
	cp.order = append(cp.order, fmt.Sprintf("Definition %s : %s := %s.", n, typ, term))
	return n
}

func (cp *coqPrinter) str(prefix, s string) string {
	return cp.intern(prefix, "string", fmt.Sprintf("%q", s))
}

func (cp *coqPrinter) recv(r Recv) string {
	switch r.Kind {
	case RGlob:
		return cp.intern("r", "recv", "RGlob "+cp.str("n", r.Name))
	case RVar:
		return cp.intern("r", "recv", "RVar "+cp.str("n", r.Name))
	}
	return "ROwn"
}

func (cp *coqPrinter) access(a Access) string {
	return fmt.Sprintf("mkA %s %s %s %s %s", a.Kind, cp.str("c", a.Cls), cp.recv(a.Recv),
		cp.intern("p", "list string", coqStrList(a.Path)), cp.str("s", a.Pos))
}

func (cp *coqPrinter) printStmts(sb *strings.Builder, ss []Stmt, ind string) {
	sb.WriteString("seq [")
	for i, s := range ss {
		if i > 0 {
			sb.WriteString(";")
		}
		sb.WriteString("\n" + ind + "  ")
		switch s.Kind {
		case SAcc:
			sb.WriteString(cp.access(s.Acc))
		case SSync:
			fmt.Fprintf(sb, "Sync (mkL %s %s) (", cp.str("c", s.Lock.Cls), cp.recv(s.Lock.Recv))
			cp.printStmts(sb, s.Body, ind+"  ")
			sb.WriteString(")")
		case SStar:
			sb.WriteString("Star (")
			cp.printStmts(sb, s.Body, ind+"  ")
			sb.WriteString(")")
		}
	}
	sb.WriteString("]")
}

// Coq renders the skeleton as coq/Gen/Skeleton.v.
func (sk *Skeleton) Coq(header string) string {
	var sb strings.Builder
	cp := &coqPrinter{names: map[string]string{}, count: map[string]int{}}
	nocomment := func(s string) string { return strings.ReplaceAll(s, "(*", "( *") }
	var names []string
	for gi, g := range sk.Regions {
		var rnames []string
		for ri, r := range g.Roles {
			n := fmt.Sprintf("role_%d_%d", gi, ri)
			fmt.Fprintf(&sb, "(* region %s, role %s%s *)\nDefinition %s_body : prog :=\n  ", nocomment(g.Name), nocomment(r.Name), map[bool]string{true: " (replicated)", false: ""}[r.Repl], n)
			cp.printStmts(&sb, r.Body, "  ")
			fmt.Fprintf(&sb, ".\nDefinition %s : role := {| rname := %q; rrepl := %v; rbody := %s_body |}.\n\n", n, r.Name, r.Repl, n)
			rnames = append(rnames, n)
		}
		gn := fmt.Sprintf("region_%d", gi)
		fmt.Fprintf(&sb, "Definition %s : region := {| gname := %q; groles := [%s] |}.\n\n", gn, g.Name, strings.Join(rnames, "; "))
		names = append(names, gn)
	}
	fmt.Fprintf(&sb, "Definition regions : list region := [%s].\n", strings.Join(names, "; "))
	var hd strings.Builder
	hd.WriteString(header)
	hd.WriteString("From Coq Require Import List String.\nFrom Shovel Require Import Model.Lockset.\nImport ListNotations.\nOpen Scope string_scope.\n\n(* names, classes, sites, call paths, receivers *)\n")
	for _, d := range cp.order {
		hd.WriteString(d + "\n")
	}
	hd.WriteString("\n")
	return hd.String() + sb.String()
}

// ---------------------------------------------------------------- the checker, again, in Go
//
// Same definitions as Model/Lockset.v (accs_of, conflict, excl, protected,
// pair_ok, bad_pairs); the correspondence run compares its output with the
// Coq function on every region.

type GAcc struct {
	A Access
	L []Lock // innermost first
}

func AccsOf(ss []Stmt, held []Lock) []GAcc {
	var out []GAcc
	for _, s := range ss {
		switch s.Kind {
		case SAcc:
			out = append(out, GAcc{s.Acc, held})
		case SSync:
			out = append(out, AccsOf(s.Body, append([]Lock{s.Lock}, held...))...)
		case SStar:
			out = append(out, AccsOf(s.Body, held)...)
		}
	}
	return out
}

func kindsConflict(a, b Kind) bool {
	return !(a == Rd && b == Rd) && !(a == At && b == At)
}

func Conflict(x, y GAcc) bool { return x.A.Cls == y.A.Cls && kindsConflict(x.A.Kind, y.A.Kind) }

func excl(x, y GAcc, l1, l2 Lock) bool {
	if l1.Cls != l2.Cls {
		return false
	}
	if l1.Recv.Kind == RGlob && l1.Recv == l2.Recv {
		return true
	}
	return l1.Recv == x.A.Recv && l2.Recv == y.A.Recv
}

func Protected(x, y GAcc) bool {
	if x.A.Recv.Kind == ROwn || y.A.Recv.Kind == ROwn {
		return true
	}
	for _, l1 := range x.L {
		for _, l2 := range y.L {
			if excl(x, y, l1, l2) {
				return true
			}
		}
	}
	return false
}

type Exemption func(x, y GAcc) bool

func PairOK(ex Exemption, x, y GAcc) bool {
	return !Conflict(x, y) || Protected(x, y) || ex(x, y) || ex(y, x)
}

type Pair struct{ X, Y GAcc }

func badRoles(ex Exemption, r1, r2 Role) []Pair {
	var out []Pair
	ys := AccsOf(r2.Body, nil)
	for _, x := range AccsOf(r1.Body, nil) {
		for _, y := range ys {
			if !PairOK(ex, x, y) {
				out = append(out, Pair{x, y})
			}
		}
	}
	return out
}

// BadPairs lists the pairs check_region rejects, in the order of Lockset.bad_pairs.
func BadPairs(ex Exemption, g Region) []Pair {
	var out []Pair
	for i, ro := range g.Roles {
		if ro.Repl {
			out = append(out, badRoles(ex, ro, ro)...)
		}
		for _, r2 := range g.Roles[i+1:] {
			out = append(out, badRoles(ex, ro, r2)...)
		}
	}
	return out
}

// HeldSelf reports whether the access is made under a lock of class cls taken
// on the access's own receiver.
func HeldSelf(x GAcc, cls string) bool {
	for _, l := range x.L {
		if l.Cls == cls && l.Recv == x.A.Recv {
			return true
		}
	}
	return false
}

func (a Access) Site() string {
	fn := ""
	if len(a.Path) > 0 {
		fn = a.Path[len(a.Path)-1]
	}
	return fmt.Sprintf("%s %s %s@%s", a.Kind, a.Cls, fn, a.Pos)
}

// Stats for the evidence.
func (sk *Skeleton) Stats() map[string]int {
	m := map[string]int{}
	for _, g := range sk.Regions {
		for _, r := range g.Roles {
			for _, x := range AccsOf(r.Body, nil) {
				m["accesses"]++
				m["accesses "+x.A.Kind.String()]++
				if len(x.L) > 0 {
					m["accesses under a lock"]++
				}
				if x.A.Recv.Kind == ROwn {
					m["accesses goroutine-private"]++
				}
			}
			m["roles"]++
		}
		m["regions"]++
	}
	return m
}

func SortedKeys[V any](m map[string]V) []string {
	ks := make([]string, 0, len(m))
	for k := range m {
		ks = append(ks, k)
	}
	sort.Strings(ks)
	return ks
}

// Dump: a readable listing of the skeleton.
func (sk *Skeleton) Dump() string {
	var sb strings.Builder
	var pr func(ss []Stmt, ind string)
	pr = func(ss []Stmt, ind string) {
		for _, s := range ss {
			switch s.Kind {
			case SAcc:
				fmt.Fprintf(&sb, "%s%s %-34s %-40s %s  <%s>\n", ind, s.Acc.Kind, s.Acc.Cls, s.Acc.Recv, s.Acc.Pos, strings.Join(s.Acc.Path, " > "))
			case SSync:
				fmt.Fprintf(&sb, "%sSYNC %s %s  @%s {\n", ind, s.Lock.Cls, s.Lock.Recv, s.Lock.Pos)
				pr(s.Body, ind+"  ")
				fmt.Fprintf(&sb, "%s}\n", ind)
			case SStar:
				fmt.Fprintf(&sb, "%sLOOP {\n", ind)
				pr(s.Body, ind+"  ")
				fmt.Fprintf(&sb, "%s}\n", ind)
			}
		}
	}
	for _, g := range sk.Regions {
		fmt.Fprintf(&sb, "=== REGION %s\n", g.Name)
		for _, r := range g.Roles {
			fmt.Fprintf(&sb, "--- ROLE %s repl=%v\n", r.Name, r.Repl)
			pr(r.Body, "  ")
		}
	}
	fmt.Fprintf(&sb, "=== SITES\n")
	for _, s := range sk.Sites {
		fmt.Fprintf(&sb, "%s %s visited=%v %s\n", s.Pos, s.What, s.Visited, s.Scope)
	}
	return sb.String()
}
