package c18skel

import (
	"go/types"
	"strings"
)

// The declared tables of the translator.  Everything the translator assumes
// about the program beyond its syntax is written here (and restated in
// design.d/C18.md); the translator refuses ("shape changed") when the source
// steps outside of what these tables and its syntactic rules cover.

const Module = "github.com/indexsupply/shovel"

// Packages whose functions are translated (inlined) when called.
var modulePkgs = []string{"shovel", "jrpc2", "eth", "dig", "shovel/glf"}

// The files C18 anchors; every synchronisation call site in them must be
// visited by the translator or be listed in outOfScope.
var AnchoredFiles = []string{"shovel/task.go", "jrpc2/client.go", "eth/types.go", "dig/dig.go"}

// Entry of the top region: one goroutine per task runs Manager.runTask
// (Manager.Run forks them); every instance has its own *Task.
type entry struct {
	region   string
	fn       string   // full name of the entry function
	repl     bool     // several instances run in parallel
	distinct []string // parameters that denote a different object in every instance
}

var entries = []entry{
	{region: "pipeline", fn: "shovel.(*Manager).runTask", repl: true, distinct: []string{"t"}},
}

// Interface method calls are bound to the one implementation the pipeline
// runs with.
var ifaceBinding = map[string]string{
	"shovel.Source":      "*jrpc2.Client",
	"shovel.Destination": "dig.Integration",
}

// Calls on these interfaces use a connection that is not safe for concurrent
// use: each call is a write of the pseudo field <iface>.wire of the receiver.
var connIfaces = map[string]bool{
	"wpg.Conn":                   true,
	"github.com/jackc/pgx/v5.Tx": true,
}

// Exclusive ownership: the object(s) reached through these fields belong to
// the struct holding the field (they are reachable from nowhere else), so an
// access to them is an access to a part of the owner and is guarded by the
// owner's lock.  eth.Tx / eth.Log / eth.TraceAction values live inside the
// owning block's slices; a Task owns its destinations and they their decoder.
var exclusive = map[string]bool{
	"eth.Block.Txs":               true,
	"eth.Tx.Logs":                 true,
	"eth.Receipt.Logs":            true,
	"eth.Tx.TraceActions":         true,
	"eth.Log.Topics":              true,
	"shovel.Task.dests":           true,
	"dig.Integration.resultCache": true,
}

// Methods that return a pointer into their receiver.
var returnsPart = map[string]string{
	"eth.(*Block).Tx": "Txs", // &b.Txs[i]
}

// Module functions that are not inlined.  effect: "" = reads its arguments
// only; "w" = additionally writes its receiver as a whole.
type summary struct {
	effect string
	why    string
}

var summaries = map[string]summary{
	"dig.(*Result).Scan": {"w", "recursive ABI scanner; works on the decoder owned by the destination"},
	"dig.dbtype":         {"", "pure conversion of its arguments"},
	"eth.Keccak":         {"", "pure"},
	"eth.EncodeHex":      {"", "pure"},
	"eth.DecodeHex":      {"", "pure"},
	"eth.EncodeUint64":   {"", "pure"},
	"jrpc2.randbytes":    {"", "crypto/rand"},
}

// Packages of the module outside the anchors that are pure helpers: opaque
// (arguments are read).  wctx is handled by the translator itself (context
// values; the RPC counter behind wctx.CounterAdd/Counter is a location of the
// skeleton, see translate.go "context values").
var opaquePkgs = map[string]string{
	"wslog":         "logging handler",
	"wstrings":      "pure helpers",
	"bint":          "pure helpers",
	"shovel/config": "configuration types",
	"wpg":           "DDL helpers, not on the indexing path",
	"wos":           "pure helpers",
}

// External constructors whose result is a fresh object.
var freshCalls = map[string]bool{
	"(*github.com/jackc/pgx/v5/pgxpool.Pool).Begin": true,
	"time.NewTicker":           true,
	"time.Now":                 true,
	"net/http.NewRequest":      true,
	"io.Pipe":                  true,
	"nhooyr.io/websocket.Dial": true,
	"context.WithTimeout":      true,
	"context.Background":       true,
	"fmt.Errorf":               true,
	"fmt.Sprintf":              true,
	"errors.New":               true,
	"strings.Map":              true,
	"io.ReadAll":               true,
}

// External functions that write through an argument (index of the argument):
// everything in package sort and the reordering functions of package slices
// rearrange their first argument in place.
func extWriteArg(f *types.Func) (int, bool) {
	if f.Pkg() == nil {
		return 0, false
	}
	switch f.Pkg().Path() {
	case "sort":
		switch f.Name() {
		case "Strings", "Ints", "Float64s", "Slice", "SliceStable", "Sort", "Stable":
			return 0, true
		}
	case "slices":
		for _, p := range []string{"Sort", "Reverse", "Compact", "Delete", "Insert", "Replace", "Grow", "Clip"} {
			if strings.HasPrefix(f.Name(), p) {
				return 0, true
			}
		}
	}
	return 0, false
}

// Synchronisation sites of the anchored files that belong to another
// property's scope.
var outOfScope = map[string]string{
	"shovel.(*Manager).": "start, stop and restart of the manager are property C20 (everything of Manager except runTask, which is this skeleton's entry)",
}

// scopeOf: the declared reason why the synchronisation sites of fn are not in
// the skeleton ("" when they must be).
func scopeOf(fn string) string {
	for prefix, why := range outOfScope {
		if len(fn) >= len(prefix) && fn[:len(prefix)] == prefix {
			for _, e := range entries {
				if fn == e.fn || len(fn) > len(e.fn) && fn[:len(e.fn)+1] == e.fn+"." {
					return ""
				}
			}
			return why
		}
	}
	return ""
}

// Functions whose accesses belong to the phase that ATTACHES data to cached
// blocks (everything else that touches block data is a consumer).  Used only
// to describe pairs (reports, known findings), never by the checker.
var AttachFns = []string{
	"jrpc2.(*Client).receipts", "jrpc2.(*Client).logs", "jrpc2.(*Client).traces",
}
