package c18skel

import (
	"go/ast"
	"go/token"
	"go/types"
	"strings"
)

// A path designates a memory location syntactically: a root variable followed
// by field selections ('f'), pointer/interface dereferences ('d') and
// slice/map/array element selections ('i').
type step struct {
	kind    byte
	name    string // field name
	owner   string // 'f': struct type holding the field, e.g. "eth.Block"
	ownerSt *types.Struct
	typ     types.Type // type of the value after this step
}

type path struct {
	root     types.Object
	rootName string
	steps    []step
	fresh    bool // designates freshly allocated memory (make, composite literal, ...)
	ownIdx   bool // indexed by a per-instance loop variable of the forking loop
}

func (p *path) with(s step) *path {
	q := *p
	q.steps = append(append([]step{}, p.steps...), s)
	return &q
}

type binding struct {
	path  *path
	ptrTo bool // the variable is a pointer TO path (otherwise an alias OF path)
	fn    *types.Func
	fnRcv *path // receiver location of a bound method value
	lit   *ast.FuncLit
	ext   bool // a function value produced by a library
}

func deref(t types.Type) (types.Type, bool) {
	if t == nil {
		return nil, false
	}
	if pt, ok := t.Underlying().(*types.Pointer); ok {
		return pt.Elem(), true
	}
	return t, false
}

func (x *xl) rootPath(v *types.Var) *path {
	return &path{root: v, rootName: x.varName(v)}
}

func (x *xl) varName(v *types.Var) string {
	if n, ok := x.region.glob[v]; ok {
		return n
	}
	if n, ok := x.region.shared[v]; ok {
		return n
	}
	if v.Pkg() != nil && v.Parent() == v.Pkg().Scope() {
		return short(v.Pkg().Path()) + "." + v.Name()
	}
	if n, ok := x.declFn[v]; ok {
		return n + "." + v.Name()
	}
	fn := "?"
	if len(x.stack) > 0 {
		fn = x.stack[len(x.stack)-1]
	}
	x.declFn[v] = fn
	return fn + "." + v.Name()
}

// loc: the location an addressable (or value) expression designates; nil when
// it designates none the translator can name.
func (x *xl) loc(e ast.Expr) *path {
	switch e := e.(type) {
	case *ast.ParenExpr:
		return x.loc(e.X)
	case *ast.Ident:
		v, ok := x.p.objOf(e).(*types.Var)
		if !ok {
			return nil
		}
		if b, ok := x.env[v]; ok && b.path != nil && !b.ptrTo {
			return b.path
		}
		return x.rootPath(v)
	case *ast.SelectorExpr:
		sel := x.p.selOf(e)
		if sel == nil { // package-qualified identifier
			if v, ok := x.p.objOf(e.Sel).(*types.Var); ok {
				return x.rootPath(v)
			}
			return nil
		}
		if sel.Kind() != types.FieldVal {
			return nil
		}
		b := x.base(e.X)
		if b == nil {
			return nil
		}
		t := x.p.typeOf(e.X)
		if et, ok := deref(t); ok {
			t = et
		}
		for _, idx := range sel.Index() {
			if et, ok := deref(t); ok { // embedded pointer
				b = b.with(step{kind: 'd', typ: et})
				t = et
			}
			st, ok := t.Underlying().(*types.Struct)
			if !ok {
				return nil
			}
			f := st.Field(idx)
			b = b.with(step{kind: 'f', name: f.Name(), owner: typeName(t), ownerSt: st, typ: f.Type()})
			t = f.Type()
		}
		return b
	case *ast.IndexExpr:
		if x.p.isType(e.Index) { // generic instantiation
			return nil
		}
		b := x.base(e.X)
		if b == nil {
			return nil
		}
		var et types.Type
		switch u := x.p.typeOf(e.X).Underlying().(type) {
		case *types.Slice:
			et = u.Elem()
		case *types.Map:
			et = u.Elem()
		case *types.Array:
			et = u.Elem()
		case *types.Pointer:
			if a, ok := u.Elem().Underlying().(*types.Array); ok {
				et = a.Elem()
			}
		case *types.Basic: // string
			et = types.Typ[types.Byte]
		}
		q := b.with(step{kind: 'i', typ: et})
		if id, ok := ast.Unparen(e.Index).(*ast.Ident); ok && b.root != nil {
			if v, ok := x.p.objOf(id).(*types.Var); ok && x.region.iter[v] {
				if _, glob := x.region.glob[b.root]; glob {
					q.ownIdx = true
				}
			}
		}
		return q
	case *ast.StarExpr:
		return x.pointee(e.X)
	case *ast.SliceExpr:
		return x.loc(e.X)
	case *ast.TypeAssertExpr:
		return x.loc(e.X)
	case *ast.UnaryExpr:
		if e.Op == token.AND {
			return nil
		}
	case *ast.CompositeLit:
		return &path{fresh: true, rootName: "new@" + x.p.Pos(e)}
	case *ast.CallExpr:
		if x.p.isType(e.Fun) && len(e.Args) == 1 { // conversion
			return x.loc(e.Args[0])
		}
		if id, ok := ast.Unparen(e.Fun).(*ast.Ident); ok {
			if _, ok := x.p.objOf(id).(*types.Builtin); ok && (id.Name == "make" || id.Name == "new") {
				return &path{fresh: true, rootName: "new@" + x.p.Pos(e)}
			}
		}
	}
	return nil
}

// pointee: the object a pointer- (or interface-) valued expression points to.
func (x *xl) pointee(e ast.Expr) *path {
	e = ast.Unparen(e)
	switch e := e.(type) {
	case *ast.UnaryExpr:
		if e.Op == token.AND {
			return x.loc(e.X)
		}
	case *ast.Ident:
		if v, ok := x.p.objOf(e).(*types.Var); ok {
			if b, ok := x.env[v]; ok && b.path != nil && b.ptrTo {
				return b.path
			}
		}
	case *ast.CallExpr:
		if f, recv := x.p.callee(e); f != nil && recv != nil {
			if fld, ok := returnsPart[x.p.FuncName(f)]; ok {
				b := x.base(recv)
				if b == nil {
					return nil
				}
				t := x.p.typeOf(recv)
				if et, ok := deref(t); ok {
					t = et
				}
				st, _ := t.Underlying().(*types.Struct)
				if st == nil {
					return nil
				}
				for i := 0; i < st.NumFields(); i++ {
					if st.Field(i).Name() == fld {
						ft := st.Field(i).Type()
						var et types.Type
						if sl, ok := ft.Underlying().(*types.Slice); ok {
							et = sl.Elem()
						}
						return b.with(step{kind: 'f', name: fld, owner: typeName(t), ownerSt: st, typ: ft}).with(step{kind: 'i', typ: et})
					}
				}
				refuse("%s: field %s not found for the part-returning method", x.p.Pos(e), fld)
			}
		}
	}
	l := x.loc(e)
	if l == nil {
		return nil
	}
	et, _ := deref(x.p.typeOf(e))
	return l.with(step{kind: 'd', typ: et})
}

// base: the object a selector or index expression on e selects into.
func (x *xl) base(e ast.Expr) *path {
	t := x.p.typeOf(e)
	if t != nil {
		if _, ok := t.Underlying().(*types.Pointer); ok {
			return x.pointee(e)
		}
	}
	return x.loc(e)
}

func render(rootName string, steps []step) string {
	var sb strings.Builder
	sb.WriteString(rootName)
	for _, s := range steps {
		switch s.kind {
		case 'f':
			sb.WriteString("." + s.name)
		case 'd':
			sb.WriteString("*")
		case 'i':
			sb.WriteString("[]")
		}
	}
	return sb.String()
}

// recvOf computes the receiver of the struct (or variable) designated by the
// prefix steps: for accesses the prefix is first reduced to the object that
// OWNS the location (by-value nesting without a mutex of its own; exclusive
// ownership table); for locks the prefix is taken as it is.
func (x *xl) recvOf(p *path, prefix []step, forLock bool) Recv {
	if !forLock {
		for len(prefix) > 0 {
			last := prefix[len(prefix)-1]
			if last.kind == 'f' {
				// struct nested by value in its parent
				if _, st := moduleStruct(last.typ); st != nil && mutexBearing(st) {
					break
				}
				if _, isStruct := last.typ.Underlying().(*types.Struct); isStruct {
					prefix = prefix[:len(prefix)-1]
					continue
				}
				break
			}
			// element or pointee: owned by the holder of an exclusive field?
			if len(prefix) >= 2 {
				prev := prefix[len(prefix)-2]
				if prev.kind == 'f' && exclusive[prev.owner+"."+prev.name] {
					prefix = prefix[:len(prefix)-2]
					continue
				}
			}
			break
		}
	}
	n := 0
	for _, s := range prefix {
		if s.kind != 'f' {
			n++
		}
	}
	name := render(p.rootName, prefix)
	switch {
	case p.fresh || p.ownIdx:
		return Recv{Kind: ROwn}
	case p.root == nil:
		return Recv{RVar, name}
	case x.fresh[p.root]:
		return Recv{Kind: ROwn}
	case x.alloc[p.root] && n <= 1:
		return Recv{Kind: ROwn} // the local's own allocation
	}
	if _, ok := x.region.glob[p.root]; ok {
		if n == 0 {
			return Recv{RGlob, name}
		}
		return Recv{RVar, name}
	}
	if _, ok := x.region.shared[p.root]; ok {
		return Recv{RVar, name}
	}
	if v, ok := p.root.(*types.Var); ok && v.Pkg() != nil && v.Parent() == v.Pkg().Scope() {
		if n == 0 {
			return Recv{RGlob, name}
		}
		return Recv{RVar, name}
	}
	if x.region.distinct[p.root] && n <= 1 {
		return Recv{Kind: ROwn}
	}
	if n == 0 {
		return Recv{Kind: ROwn}
	}
	return Recv{RVar, name}
}

// access emits one access to the location p.
func (x *xl) access(k Kind, p *path, at ast.Node) {
	if p == nil {
		return
	}
	steps := p.steps
	// an element or pointee that is not a struct field: the access is to the
	// container (a slice field's class covers its elements)
	for len(steps) > 0 && steps[len(steps)-1].kind != 'f' {
		steps = steps[:len(steps)-1]
	}
	if len(steps) == 0 {
		if v, ok := p.root.(*types.Var); ok {
			x.varAccess(k, v, at)
		}
		return
	}
	f := steps[len(steps)-1]
	if isSyncType(f.typ, "WaitGroup") {
		return
	}
	x.emit(Access{Kind: k, Cls: f.owner + "." + f.name, Recv: x.recvOf(p, steps[:len(steps)-1], false),
		Path: append([]string{}, x.stack...), Pos: x.p.Pos(at)})
}

func (x *xl) varAccess(k Kind, v *types.Var, at ast.Node) {
	if n, ok := x.region.glob[v]; ok {
		x.emit(Access{Kind: k, Cls: "var:" + n, Recv: Recv{RGlob, n}, Path: append([]string{}, x.stack...), Pos: x.p.Pos(at)})
		return
	}
	if n, ok := x.region.shared[v]; ok {
		x.emit(Access{Kind: k, Cls: "var:" + n, Recv: Recv{RVar, n}, Path: append([]string{}, x.stack...), Pos: x.p.Pos(at)})
		return
	}
	if v.Pkg() != nil && v.Parent() == v.Pkg().Scope() && isModule(v.Pkg()) {
		n := short(v.Pkg().Path()) + "." + v.Name()
		x.emit(Access{Kind: k, Cls: "var:" + n, Recv: Recv{RGlob, n}, Path: append([]string{}, x.stack...), Pos: x.p.Pos(at)})
	}
}

// whole: an access to every field of a struct value (a copy reads them all).
func (x *xl) whole(k Kind, p *path, t types.Type, at ast.Node, depth int) {
	if p == nil || depth > 4 {
		return
	}
	st, ok := t.Underlying().(*types.Struct)
	if !ok {
		return
	}
	for i := 0; i < st.NumFields(); i++ {
		f := st.Field(i)
		if isSyncType(f.Type(), "WaitGroup") {
			continue
		}
		// a sync.Mutex / sync.Once field is one word for our purposes: copying
		// the struct reads it while Lock/Unlock/Do operate on it atomically
		q := p.with(step{kind: 'f', name: f.Name(), owner: typeName(t), ownerSt: st, typ: f.Type()})
		if _, isStruct := f.Type().Underlying().(*types.Struct); isStruct {
			if n, _ := moduleStruct(f.Type()); n != nil {
				x.whole(k, q, f.Type(), at, depth+1)
				continue
			}
		}
		x.access(k, q, at)
	}
}

// lockOf: the lock a Lock()/Unlock() call on recvExpr operates.
func (x *xl) lockOf(recvExpr ast.Expr, at ast.Node) Lock {
	t := x.p.typeOf(recvExpr)
	et, _ := deref(t)
	if isSyncType(et, "Mutex") {
		// a mutex variable or a named mutex field
		p := x.base(recvExpr)
		if p == nil {
			refuse("%s: cannot name the mutex %s", x.p.Pos(at), types.ExprString(recvExpr))
		}
		if len(p.steps) > 0 && p.steps[len(p.steps)-1].kind == 'f' {
			f := p.steps[len(p.steps)-1]
			return Lock{Cls: f.owner + "." + f.name, Recv: x.recvOf(p, p.steps[:len(p.steps)-1], true), Pos: x.p.Pos(at)}
		}
		// plain variable (possibly reached through a pointer parameter bound to &v)
		steps := p.steps
		for len(steps) > 0 && steps[len(steps)-1].kind == 'd' {
			steps = steps[:len(steps)-1]
		}
		if len(steps) != 0 {
			refuse("%s: mutex %s is neither a variable nor a field", x.p.Pos(at), types.ExprString(recvExpr))
		}
		return Lock{Cls: "var:" + p.rootName, Recv: x.recvOf(p, nil, true), Pos: x.p.Pos(at)}
	}
	// embedded mutex: the struct is the lock
	n, st := moduleStruct(et)
	if n == nil || !mutexBearing(st) {
		refuse("%s: Lock on %s of type %s", x.p.Pos(at), types.ExprString(recvExpr), t)
	}
	p := x.base(recvExpr)
	if p == nil {
		refuse("%s: cannot name the locked object %s", x.p.Pos(at), types.ExprString(recvExpr))
	}
	return Lock{Cls: typeName(et), Recv: x.recvOf(p, p.steps, true), Pos: x.p.Pos(at)}
}

// mutexLoc: the memory of the mutex a Lock()/Unlock() call on recvExpr operates.
func (x *xl) mutexLoc(recvExpr ast.Expr) *path {
	t := x.p.typeOf(recvExpr)
	et, _ := deref(t)
	if isSyncType(et, "Mutex") {
		return x.base(recvExpr)
	}
	_, st := moduleStruct(et)
	p := x.base(recvExpr)
	if st == nil || p == nil {
		return nil
	}
	for i := 0; i < st.NumFields(); i++ {
		if f := st.Field(i); f.Embedded() && isSyncType(f.Type(), "Mutex") {
			return p.with(step{kind: 'f', name: f.Name(), owner: typeName(et), ownerSt: st, typ: f.Type()})
		}
	}
	return nil
}
