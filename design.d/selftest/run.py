#!/usr/bin/env python3
"""self-test: apply one edit to a scratch copy of the private repo, run bin/check, report"""
import subprocess, sys, os, shutil, json, re
import os as _os
SRC=_os.environ.get("SELFTEST_SRC","/repo"); DST="/tmp/w-client-m"
def run(prop, name, edits=None, reverse=None, patch=None):
    shutil.rmtree(DST, ignore_errors=True)
    shutil.copytree(SRC, DST, ignore=shutil.ignore_patterns(".git"))
    if edits:
        for path, old, new in edits:
            p=os.path.join(DST,path); s=open(p).read()
            if s.count(old)!=1:
                print(f"{name}: EDIT DOES NOT APPLY ({s.count(old)} matches) {old[:50]!r}"); shutil.rmtree(DST); return
            open(p,"w").write(s.replace(old,new))
    if patch:
        r=subprocess.run(["patch","-p1","-s","-d",DST,"-i",patch],capture_output=True,text=True)
        if r.returncode!=0:
            print(f"{name}: PATCH FAILED {r.stdout} {r.stderr}"); shutil.rmtree(DST); return
    if reverse:
        r=subprocess.run(["patch","-R","-p1","-s","-d",DST,"-i",reverse],capture_output=True,text=True)
        if r.returncode!=0:
            print(f"{name}: REVERSE FAILED {r.stdout} {r.stderr}"); shutil.rmtree(DST); return
    env=dict(os.environ, VERIF_REPO=DST, GOFLAGS="-mod=mod", GOPROXY="off", GOSUMDB="off", GOTOOLCHAIN="local")
    b=subprocess.run("go build ./... ", shell=True, cwd=DST, env=env, capture_output=True, text=True)
    if b.returncode!=0:
        print(f"{name}: DOES NOT COMPILE {b.stderr[-300:]}"); shutil.rmtree(DST); return
    r=subprocess.run(["/verif/bin/check",prop,"--tier","quick"],env=env,capture_output=True,text=True,cwd="/verif")
    out=[l for l in r.stdout.splitlines() if "conda" not in l]
    verdict=out[-1] if out else "?"
    fi=[l for l in out if l.startswith("failing input")]
    kf=[l for l in out if l.startswith("KNOWN")]
    detail=""
    if fi:
        m=re.search(r'"oracle_msg": "([^"]*)"',fi[0]); detail=(m.group(1) if m else fi[0][:200])
        m2=re.search(r'"site": "([^"]*)"',fi[0]); detail+=" | site="+(m2.group(1) if m2 else "")
        br=[l for l in out if l.startswith("broken")]
        if br:
            k=out.index(br[0]); detail+=" || "+" ".join(x.strip() for x in out[k:k+12])[:700]
    else:
        br=[l for l in out if l.startswith("broken")]
        detail=" ; ".join(br[:2])
    print(f"{name}: exit={r.returncode} {verdict} || {detail[:260]}")
    sys.stdout.flush()
    shutil.rmtree(DST)
if __name__=="__main__":
    import importlib.util
    spec=importlib.util.spec_from_file_location("m", sys.argv[1]); m=importlib.util.module_from_spec(spec); spec.loader.exec_module(m)
    sel=sys.argv[2:] 
    for prop,name,kw in m.MUTANTS:
        if sel and name not in sel: continue
        run(prop,name,**kw)
