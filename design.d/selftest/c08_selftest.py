#!/usr/bin/env python3
"""Sensitivity self-test of C08 (builder "cache").

    python3 design.d/selftest/c08_selftest.py NAME      (names: keys of M below, or revert-fix)

Copies /repo (hook and fixes integrated) to /tmp/w-cache-m, applies ONE textual edit
(or reverse-applies the fix), runs `VERIF_REPO=/tmp/w-cache-m bin/check C08
--tier quick`, prints verdict, mismatch / oracle-failure counts and the reported
failing input, deletes the copy.  Results: design.d/C08.md."""
import sys, os, shutil, subprocess, re, json
M = {
 "store-on-error": ("jrpc2/client.go", '''	blocks, err := f(ctx, url, start, limit)
	if err != nil {
		return nil, fmt.Errorf("cache get: %w", err)
	}

	seg.d = blocks
	seg.done = true
''', '''	blocks, err := f(ctx, url, start, limit)
	seg.d = blocks
	seg.done = true
	if err != nil {
		return nil, fmt.Errorf("cache get: %w", err)
	}

'''),
 "assign-before-error": ("jrpc2/client.go", '''	blocks, err := f(ctx, url, start, limit)
	if err != nil {
		return nil, fmt.Errorf("cache get: %w", err)
	}

	seg.d = blocks
	seg.done = true
''', '''	var err error
	seg.d, err = f(ctx, url, start, limit)
	seg.done = seg.d != nil
	if err != nil {
		return nil, fmt.Errorf("cache get: %w", err)
	}
'''),
 # removes the field the hook reads: the hook no longer compiles; AND a rejected reply is stored
 "done-field-removed-stores-rejected": [
  ("jrpc2/client.go", "	nreads int\n	done   bool\n	d      []eth.Block\n}", "	nreads int\n	d      []eth.Block\n}"),
  ("jrpc2/client.go", '''	if seg.done {
		return seg.d, nil
	}

	blocks, err := f(ctx, url, start, limit)
	if err != nil {
		return nil, fmt.Errorf("cache get: %w", err)
	}

	seg.d = blocks
	seg.done = true
	return seg.d, nil''', '''	if seg.d != nil {
		return seg.d, nil
	}

	var err error
	seg.d, err = f(ctx, url, start, limit)
	if err != nil {
		return nil, fmt.Errorf("cache get: %w", err)
	}
	return seg.d, nil''')],
 # the same refactoring done correctly: only the hook breaks
 "done-field-renamed": [
  ("jrpc2/client.go", "	nreads int\n	done   bool\n	d      []eth.Block\n}", "	nreads int\n	filled bool\n	d      []eth.Block\n}"),
  ("jrpc2/client.go", "	if seg.done {", "	if seg.filled {"),
  ("jrpc2/client.go", "	seg.done = true", "	seg.filled = true")],
 "traces-merge-not-replace": ("jrpc2/client.go", "			tx.TraceActions = make([]eth.TraceAction, len(traces))\n			for i := range traces {\n				ta := traces[i].Action\n				ta.Idx = uint64(i)\n				tx.TraceActions[i] = ta\n			}", "			for i := range traces {\n				ta := traces[i].Action\n				ta.Idx = uint64(i)\n				tx.TraceActions = append(tx.TraceActions, ta)\n			}"),
 "traces-no-empty-check": ("jrpc2/client.go", "		if len(res.Result) == 0 {\n			return fmt.Errorf(\"no rpc error but empty result\")\n		}\n		for j := range res.Result {\n			if got := res.Result[j].BlockNum", "		for j := range res.Result {\n			if got := res.Result[j].BlockNum"),
 # seeds/C03-d: the item's hash is written into the (shared, cached) block before the mismatch is reported
 "sethash-writes-first": ("jrpc2/client.go", '''	if len(b.Header.Hash) > 0 && !bytes.Equal(b.Header.Hash, h) {
		const tag = "block %d: hash mismatch. have: %.4x got: %.4x"
		return fmt.Errorf(tag, uint64(b.Header.Number), []byte(b.Header.Hash), h)
	}
	b.Header.Hash.Write(h)
	return nil''', '''	have := append([]byte(nil), b.Header.Hash...)
	b.Header.Hash.Write(h)
	if len(have) > 0 && !bytes.Equal(have, h) {
		const tag = "block %d: hash mismatch. have: %.4x got: %.4x"
		return fmt.Errorf(tag, uint64(b.Header.Number), have, h)
	}
	return nil'''),
 # seeds/C08-i: the prune pass skips a segment whose download is in flight
 "prune-trylock-skips-inflight": ("jrpc2/client.go", "	for k, v := range c.segments {\n		v.Lock()\n		if v.nreads >= c.maxreads {", "	for k, v := range c.segments {\n		if !v.TryLock() {\n			continue\n		}\n		if v.nreads >= c.maxreads {"),
 "prune-maxread-gt": ("jrpc2/client.go", "if v.nreads >= c.maxreads {", "if v.nreads > c.maxreads {"),
 "head-maxread-gt": ("jrpc2/client.go", "if nh.nreads >= nh.maxreads {", "if nh.nreads > nh.maxreads {"),
 "prune-lowest": ("jrpc2/client.go", "return keys[i].a > keys[j].a", "return keys[i].a < keys[j].a"),
 "add-no-index-test": ("eth/types.go", '''	for i := range *ls {
		if (*ls)[i].Idx == other.Idx {
			return
		}
	}

	l := Log{}''', '''	l := Log{}'''),
 "update-no-guard": ("jrpc2/client.go", '''	if n <= nh.Num {
		return
	}
	nh.nreads = 0''', '''	nh.nreads = 0'''),
 "hit-when-zero": ("jrpc2/client.go", "if n == 0 || uint64(nh.Num) < n {", "if uint64(nh.Num) < n {"),
 "revert-fix": None,
 "no-nreads-inc": ("jrpc2/client.go", "	seg.nreads++\n", ""),
 "error-not-recorded": ("jrpc2/client.go", "	nh.nreads = 0\n	nh.err = err\n", "	nh.nreads = 0\n"),
 "poll-parent-hash": ("jrpc2/client.go", "		c.lcache.update(hresp.Number, hresp.Hash)\n	}\n}", "		c.lcache.update(hresp.Number, hresp.Parent)\n	}\n}"),
 "key-ignores-limit": ("jrpc2/client.go", '''	seg, ok := c.segments[key{start, limit}]
	if !ok {
		seg = &segment{}
		c.segments[key{start, limit}] = seg
	}''', '''	seg, ok := c.segments[key{start, 0}]
	if !ok {
		seg = &segment{}
		c.segments[key{start, 0}] = seg
	}'''),
 "head-cmp-le": ("jrpc2/client.go", "if n == 0 || uint64(nh.Num) < n {", "if n == 0 || uint64(nh.Num) <= n {"),
 "err-keeps-once": ("jrpc2/client.go", "		nh.once = sync.Once{}\n", ""),
 "prune-size-6": ("jrpc2/client.go", "const size = 5", "const size = 6"),
 "tx-always-append": ("eth/types.go", '''	for i := range b.Txs {
		if uint64(b.Txs[i].Idx) == idx {
			return &b.Txs[i]
		}
	}
	b.Txs = append''', '''	b.Txs = append'''),
 "expire-keeps-num": ("jrpc2/client.go", "		nh.Num = eth.Uint64(0)\n		nh.Hash.Write([]byte{})\n", ""),
 "latest-skip-update": ("jrpc2/client.go", "	c.lcache.update(hresp.Number, hresp.Hash)\n	return uint64(hresp.Number), hresp.Hash, nil", "	return uint64(hresp.Number), hresp.Hash, nil"),
 "ws-wrong-number": ("jrpc2/client.go", "		c.lcache.update(res.P.R.Num, res.P.R.Hash)\n", "		c.lcache.update(res.P.R.Num+1, res.P.R.Hash)\n"),
 "ws-error-swallowed": ("jrpc2/client.go", """			c.lcache.error(fmt.Errorf("ws read %q: %w", c.wsurl, err))
			return""", """			return"""),
 "blocks-in-hcache": ("jrpc2/client.go", "blocks, err = c.bcache.get(c.nocache, ctx, url, start, limit, c.blocks)", "blocks, err = c.hcache.get(c.nocache, ctx, url, start, limit, c.blocks)"),
 "nocache-ignored": ("jrpc2/client.go", "	if nocache {\n		return f(ctx, url, start, limit)\n	}\n", ""),
 "logs-no-lock": ("jrpc2/client.go", "		b.Lock()\n		b.Header.Hash.Write(logs[0].BlockHash)", "		b.Header.Hash.Write(logs[0].BlockHash)"),
 "seg-done-early": ("jrpc2/client.go", "	seg.nreads++\n	if seg.done {", "	seg.nreads++\n	if seg.done || seg.nreads > 1 {"),
}
name = sys.argv[1]
dst = "/tmp/w-cache-m"
shutil.rmtree(dst, ignore_errors=True)
shutil.copytree("/repo", dst, ignore=shutil.ignore_patterns(".git", ".scratch"))
if name == "revert-fix":
    r = subprocess.run(["patch", "-R", "-p1", "-i", "/verif/fixes/C08-receipts-block-lock.diff"], cwd=dst, capture_output=True, text=True)
    assert r.returncode == 0, r.stdout + r.stderr
else:
    edits = M[name] if isinstance(M[name], list) else [M[name]]
    for f, old, new in edits:
        p = os.path.join(dst, f)
        s = open(p).read()
        assert s.count(old) == 1, (name, s.count(old))
        open(p, "w").write(s.replace(old, new))
env = dict(os.environ, VERIF_REPO=dst, GOFLAGS="-mod=mod", GOPROXY="off", GOSUMDB="off", GOTOOLCHAIN="local")
b = subprocess.run("go build ./jrpc2/ ./eth/ && go vet ./jrpc2/ 2>&1 | grep -v 'copies lock\\|^#' | head -3", shell=True, cwd=dst, env=env, capture_output=True, text=True)
r = subprocess.run(["/verif/bin/check", "C08", "--tier", "quick"], cwd="/verif", env=env, capture_output=True, text=True)
out = "\n".join(l for l in r.stdout.splitlines() if "conda" not in l)
fi = [l for l in out.splitlines() if l.startswith("failing input")]
br = [l for l in out.splitlines() if l.startswith("broken") and "forbidden" not in l]
ev = json.load(open("/verif/evidence/C08.json"))["coverage"]["correspondence"]
print(f"== {name}: exit={r.returncode} build={b.stdout.strip()[:80]!r} mismatches={ev['model_mismatches']} oracle_failures={ev['oracle_failures']}")
if fi:
    rep = json.load(open("/verif/replays/C08_quick_1.json"))
    f0 = rep.get("failing_input") or {}
    print("   failing input:", f0.get("kind"), "seed", (f0.get("desc") or {}).get("seed"), "|", (rep.get("oracle") or "")[:260])
for l in br[:2]:
    print("  ", l[:200])
print("   " + out.splitlines()[-1])
shutil.rmtree(dst, ignore_errors=True)
