C="jrpc2/client.go"
EDIT=[(C,'''		for j := range resps[i].Result {
			tx := b.Tx(uint64(resps[i].Result[j].TxIdx))''','''		for j := range resps[i].Result {
			if len(resps[i].Result[j].Logs) == 0 {
				continue
			}
			tx := b.Tx(uint64(resps[i].Result[j].TxIdx))''')]
MUTANTS=[
 ("C14","S1-receipts-skips-receipt-without-logs (C14)",dict(edits=EDIT)),
 ("C07","S1-receipts-skips-receipt-without-logs (C07)",dict(edits=EDIT)),
]
