C="jrpc2/client.go"
MUTANTS=[
 ("C07","M1-blocks-error-member-check-removed",dict(edits=[(C,'''	for i := range resps {
		if resps[i].Error.Exists() {
			const tag = "eth_getBlockByNumber"
			return nil, fmt.Errorf("rpc=%s %w", tag, resps[i].Error)
		}
	}
''','')])),
 ("C07","M2-receipts-error-member-check-removed",dict(edits=[(C,'''		if resps[i].Error.Exists() {
			const tag = "eth_getBlockReceipts"''','''		if false && resps[i].Error.Exists() {
			const tag = "eth_getBlockReceipts"''')])),
 ("C07","M3-logs-error-member-check-removed",dict(edits=[(C,'''	case lresp.Error.Exists():
		return fmt.Errorf("rpc=eth_getLogs %w", lresp.Error)
''','')])),
 ("C07","M4-validate-first-check-removed",dict(edits=[(C,'''	if uint64(first) != start {''','''	if false && uint64(first) != start {''')])),
 ("C07","M5-validate-last-check-removed(equivalent after fix 2)",dict(edits=[(C,'''	if uint64(last) != start+limit-1 {''','''	if false && uint64(last) != start+limit-1 {''')])),
 ("C07","M6-log-range-ge-to-gt",dict(edits=[(C,'''blockNum >= start+limit {''','''blockNum > start+limit {''')])),
 ("C07","M7-logs-header-nil-check-removed",dict(edits=[(C,'''	case hresp.Header == nil:
		return fmt.Errorf("eth backend missing logs for block: %d", toBlock)
''','')])),
 ("C07","M8-http-status-check-removed",dict(edits=[(C,'''	if resp.StatusCode/100 != 2 {''','''	if false && resp.StatusCode/100 != 2 {''')])),
 ("C07","M9-traces-error-member-check-removed",dict(edits=[(C,'''		if res.Error.Exists() {
			const tag = "trace_block"
			return fmt.Errorf("rpc=%s %w", tag, res.Error)
		}
''','')])),
 ("C07","M10-validate-parent-link-check-removed",dict(edits=[(C,'''		if !bytes.Equal(curr.Header.Parent, prev.Hash()) {''','''		if false && !bytes.Equal(curr.Header.Parent, prev.Hash()) {''')])),
 ("C07","M11-receipts-stops-copying-gas-used",dict(edits=[(C,'''			tx.GasUsed = resps[i].Result[j].GasUsed
''','')])),
 ("C07","M12-logs-add-without-index-test",dict(edits=[("eth/types.go",'''		if (*ls)[i].Idx == other.Idx {
			return
		}''','''		if false && (*ls)[i].Idx == other.Idx {
			return
		}''')])),
 ("C07","M13-log-range-lower-bound-removed",dict(edits=[(C,'''		if blockNum < start || blockNum >= start+limit {''','''		if blockNum >= start+limit {''')])),
 ("C07","M14-traces-empty-result-check-removed",dict(edits=[(C,'''		if len(res.Result) == 0 {
			return fmt.Errorf("no rpc error but empty result")
		}
''','')])),
]
for k,n in enumerate(["C07-1-null-head-result","C07-2-validate-every-number","C07-3-missing-block-result","C07-4-receipts-name-requested-block","C07-5-traces-name-requested-block","C07-6-block-hash-skew","C07-7-logs-batch-shape"]):
    MUTANTS.append(("C07","R%d-reverse-%s"%(k+1,n),dict(reverse="/verif/fixes/%s.diff"%n)))
