#!/usr/bin/env python3
"""Sensitivity self-test of the task layer (C01..C06), builder "taskgo".

usage: design.d/selftest/task_selftest.py [name-prefix ...]      (default: everything)

For every edit below (and every reverse-applied repair) a scratch copy of the
repository /repo (task repairs integrated) is made at /tmp/w-taskgo-m, the edit is
applied (the old text must occur exactly once), the 38 baseline tests are run
on the copy, `VERIF_REPO=/tmp/w-taskgo-m bin/check <ID> --tier quick` is run,
the verdict line and the failing input named by the replay file are printed,
and the copy is deleted.  Results: design.d/task-harness.md section 9.
"""
import sys, os, shutil, subprocess, json, re

SRC = os.environ.get("TASK_TREE", "/repo")
DST = "/tmp/w-taskgo-m"
M = {
 # ---- C01
 "c01-load-from-local":      ("C01", "shovel/task.go", "task.load(ctx, url, localHash, localNum+1, delta)", "task.load(ctx, url, localHash, localNum, delta)"),
 "c01-load-from-local2":     ("C01", "shovel/task.go", "task.load(ctx, url, localHash, localNum+1, delta)", "task.load(ctx, url, localHash, localNum+2, delta)"),
 "c01-delta-not-min":        ("C01", "shovel/task.go", "delta := min(targetNum-localNum, uint64(task.batchSize))", "delta := uint64(task.batchSize)"),
 "c01-update-first":         ("C01", "shovel/task.go", "last := blocks[len(blocks)-1]\n\t\terr = task.update(", "last := blocks[0]\n\t\terr = task.update("),
 "c01-no-sort":              ("C01", "shovel/task.go", "\tslices.SortFunc(blocks, func(a, b eth.Block) int {\n\t\treturn cmp.Compare(a.Num(), b.Num())\n\t})\n", "\t_ = cmp.Compare[int]\n\t_ = slices.Sort[[]int]\n"),
 "c01-partition-n1":         ("C01", "shovel/task.go", "if m > start+limit || n == 0 {", "if m > start+limit || n == 1 {"),
 "c01-logs-no-head-guard":   ("C01", "jrpc2/client.go", "\tcase hresp.Header == nil:\n\t\treturn fmt.Errorf(\"eth backend missing logs for block: %d\", toBlock)\n", ""),
 # ---- C02
 "c02-commit-between":       ("C02", "shovel/task.go", "\t\tlast := blocks[len(blocks)-1]\n\t\terr = task.update(", "\t\tif err := pgtx.Commit(ctx); err != nil {\n\t\t\treturn err\n\t\t}\n\t\tpgtx, err = task.pgp.Begin(ctx)\n\t\tif err != nil {\n\t\t\treturn err\n\t\t}\n\t\tlast := blocks[len(blocks)-1]\n\t\terr = task.update("),
 "c02-delete-outside-tx":    ("C02", "shovel/task.go", "if err := task.Delete(pgtx, localNum); err != nil {", "if err := task.Delete(task.pgp, localNum); err != nil {"),
 "c02-no-rollback-insert":   ("C02", "shovel/task.go", "\t\tif err != nil {\n\t\t\tpgtx.Rollback(ctx)\n\t\t\treturn fmt.Errorf(\"inserting data: %w\", err)", "\t\tif err != nil {\n\t\t\tpgtx.Commit(ctx)\n\t\t\treturn fmt.Errorf(\"inserting data: %w\", err)"),
 "c02-update-before-insert": ("C02", "shovel/task.go", "\t\tnrows, err := task.insert(ctx, pgtx, blocks)\n", "\t\tif err := task.update(pgtx, blocks[len(blocks)-1].Num(), blocks[len(blocks)-1].Hash(), targetNum, targetHash, delta, 0, time.Since(t0)); err != nil {\n\t\t\tpgtx.Rollback(ctx)\n\t\t\treturn err\n\t\t}\n\t\tif err := pgtx.Commit(ctx); err != nil {\n\t\t\treturn err\n\t\t}\n\t\tpgtx, err = task.pgp.Begin(ctx)\n\t\tif err != nil {\n\t\t\treturn err\n\t\t}\n\t\tnrows, err := task.insert(ctx, pgtx, blocks)\n\t\tif err == nil {\n\t\t\tif err := pgtx.Commit(ctx); err != nil {\n\t\t\t\treturn err\n\t\t\t}\n\t\t\treturn nil\n\t\t}\n"),
 # ---- C03
 "c03-reorg-test-negated":   ("C03", "shovel/task.go", "if len(first.Header.Parent) == 32 && !bytes.Equal(localHash, first.Header.Parent) {", "if len(first.Header.Parent) == 32 && bytes.Equal(localHash, first.Header.Parent) {"),
 "c03-reorg-test-removed":   ("C03", "shovel/task.go", "if len(first.Header.Parent) == 32 && !bytes.Equal(localHash, first.Header.Parent) {", "if false && len(first.Header.Parent) == 32 && !bytes.Equal(localHash, first.Header.Parent) {"),
 "c03-del-cursor-gt":        ("C03", "shovel/task.go", "\t\tand num >= $3\n", "\t\tand num > $3\n"),
 "c03-del-rows-gt":          ("C03", "dig/dig.go", "\t\tand block_num >= $3\n", "\t\tand block_num > $3\n"),
 "c03-delete-local-plus1":   ("C03", "shovel/task.go", "task.Delete(pgtx, localNum)", "task.Delete(pgtx, localNum+1)"),
 "c03-no-continue":          ("C03", "shovel/task.go", "\t\t\t\treturn fmt.Errorf(\"deleting during reorg: %w\", err)\n\t\t\t}\n\t\t\tcontinue\n", "\t\t\t\treturn fmt.Errorf(\"deleting during reorg: %w\", err)\n\t\t\t}\n\t\t\treturn ErrReorg\n"),
 "c03-prev-asc":             ("C03", "shovel/task.go", "\t\tselect num\n\t\tfrom shovel.task_updates\n\t\twhere src_name = $1\n\t\tand ig_name = $2\n\t\torder by num desc", "\t\tselect num\n\t\tfrom shovel.task_updates\n\t\twhere src_name = $1\n\t\tand ig_name = $2\n\t\torder by num asc"),
 # ---- C04
 "c04-del-cursor-no-ig":     ("C04", "shovel/task.go", "\t\twhere src_name = $1\n\t\tand ig_name = $2\n\t\tand num >= $3\n", "\t\twhere src_name = $1\n\t\tand $2 = $2\n\t\tand num >= $3\n"),
 "c04-del-rows-no-src":      ("C04", "dig/dig.go", "\t\twhere src_name = $1\n\t\tand ig_name = $2\n\t\tand block_num >= $3\n", "\t\twhere $1 = $1\n\t\tand ig_name = $2\n\t\tand block_num >= $3\n"),
 "c04-del-rows-const-src":   ("C04", "dig/dig.go", "\t\twctx.SrcName(ctx),\n\t\tig.name,\n\t\tn,", "\t\t\"main\",\n\t\tig.name,\n\t\tn,"),
 "c04-stamp-table-name":     ("C04", "dig/dig.go", "\tcase \"ig_name\":\n\t\treturn wctx.IGName(lwc.ctx)", "\tcase \"ig_name\":\n\t\treturn \"shared\""),
 "c04-latest-no-ig":         ("C04", "shovel/task.go", "\t\tselect num, hash\n\t\tfrom shovel.task_updates\n\t\twhere src_name = $1\n\t\tand ig_name = $2\n", "\t\tselect num, hash\n\t\tfrom shovel.task_updates\n\t\twhere src_name = $1\n\t\tand $2 = $2\n"),
 # ---- C05
 "c05-dep-cmp-inverted":     ("C05", "shovel/task.go", "case depNum < gethNum:", "case depNum > gethNum:"),
 "c05-dep-branch-skipped":   ("C05", "shovel/task.go", "case len(task.destConfig.Dependencies) > 0:", "case false && len(task.destConfig.Dependencies) > 0:"),
 "c05-dep-order-desc":       ("C05", "shovel/task.go", "\t\tfrom latest\n\t\torder by num asc\n", "\t\tfrom latest\n\t\torder by num desc\n"),
 "c05-dep-no-src":           ("C05", "shovel/task.go", "\t\t\twhere src_name = $1\n\t\t\tand ig_name = ANY($2)", "\t\t\twhere $1 = $1\n\t\t\tand ig_name = ANY($2)"),
 "c05-dep-count-ignored":    ("C05", "shovel/task.go", "\tcase n < int64(len(deps)):", "\tcase false && n < int64(len(deps)):"),
 # ---- C06
 "c06-stop-gt":              ("C06", "shovel/task.go", "if task.stop > 0 && localNum >= task.stop {", "if task.stop > 0 && localNum > task.stop {"),
 "c06-target-not-clipped":   ("C06", "shovel/task.go", "if task.stop > 0 && targetNum > task.stop {", "if false && task.stop > 0 && targetNum > task.stop {"),
 "c06-start-not-minus1":     ("C06", "shovel/task.go", "\t\t\tn := t.start - 1\n", "\t\t\tn := t.start\n"),
 "c06-head-not-minus1":      ("C06", "shovel/task.go", "h, err := t.src.Hash(ctx, t.src.NextURL().String(), n-1)\n\t\t\tif err != nil {\n\t\t\t\treturn 0, nil, fmt.Errorf(\"getting hash for %d: %w\", n-1, err)\n\t\t\t}\n\t\t\tslog.InfoContext(t.ctx, \"start at latest\", \"num\", n)\n\t\t\treturn n - 1, h, nil", "h, err := t.src.Hash(ctx, t.src.NextURL().String(), n)\n\t\t\tif err != nil {\n\t\t\t\treturn 0, nil, fmt.Errorf(\"getting hash for %d: %w\", n, err)\n\t\t\t}\n\t\t\tslog.InfoContext(t.ctx, \"start at latest\", \"num\", n)\n\t\t\treturn n, h, nil"),
 "c06-position-ignored":     ("C06", "shovel/task.go", "\tdefault:\n\t\treturn localNum, localHash, nil\n\t}\n}\n\nvar (\n\tErrNothingNew", "\tdefault:\n\t\tif t.start > 0 && localNum < t.start+2 {\n\t\t\treturn t.start - 1, localHash, nil\n\t\t}\n\t\treturn localNum, localHash, nil\n\t}\n}\n\nvar (\n\tErrNothingNew"),
 # ---- seeded by the coordinator (caught only by trace conformance before the drivers were strengthened)
 "seed-c03-delete-clamped-to-current-batch": ("C03", "shovel/task.go", ['\tdefault:\n\t\tn = prev + 1\n\t}\n\terr = t.dests[0].Delete(t.ctx, pg, n)', 'func (t *Task) Delete(pg wpg.Conn, n uint64) error {\n\tconst q = `'], ['\tdefault:\n\t\tn = prev + 1\n\t}\n\tif b := uint64(t.batchSize); pos >= b && n < pos-b+1 {\n\t\tn = pos - b + 1\n\t}\n\terr = t.dests[0].Delete(t.ctx, pg, n)', 'func (t *Task) Delete(pg wpg.Conn, n uint64) error {\n\tpos := n\n\tconst q = `']),
 "seed-c02-delete-clamped-to-current-batch": ("C02", "shovel/task.go", ['\tdefault:\n\t\tn = prev + 1\n\t}\n\terr = t.dests[0].Delete(t.ctx, pg, n)', 'func (t *Task) Delete(pg wpg.Conn, n uint64) error {\n\tconst q = `'], ['\tdefault:\n\t\tn = prev + 1\n\t}\n\tif b := uint64(t.batchSize); pos >= b && n < pos-b+1 {\n\t\tn = pos - b + 1\n\t}\n\terr = t.dests[0].Delete(t.ctx, pg, n)', 'func (t *Task) Delete(pg wpg.Conn, n uint64) error {\n\tpos := n\n\tconst q = `']),
 "seed-c05-dependency-read-hoisted": ("C05", "shovel/task.go", ['\tfor reorgs := 0; reorgs <= 1000; reorgs++ {\n\t\tlocalNum, localHash, err := task.latest(ctx, pgtx)', '\t\t\tdepNum, depHash, err := task.latestDependency(pgtx)\n\t\t\tif err != nil {\n\t\t\t\treturn fmt.Errorf("getting latest from dependencies: %w", err)\n\t\t\t}\n\t\t\tswitch {'], ['\tvar (\n\t\tdepNum  uint64\n\t\tdepHash []byte\n\t)\n\tif len(task.destConfig.Dependencies) > 0 {\n\t\tdepNum, depHash, err = task.latestDependency(pgtx)\n\t\tif err != nil {\n\t\t\treturn fmt.Errorf("getting latest from dependencies: %w", err)\n\t\t}\n\t}\n\tfor reorgs := 0; reorgs <= 1000; reorgs++ {\n\t\tlocalNum, localHash, err := task.latest(ctx, pgtx)', '\t\t\tswitch {']),
}

REV = {
 "rev-C01-fix":  ("C01", "C01-load-partition-size"),
 "rev-C03a-fix-on-C02": ("C02", "C03-unwind-whole-batch"),
 "rev-C03a-fix": ("C03", "C03-unwind-whole-batch"),
 "rev-C03b-fix": ("C03", "C03-load-cross-partition-linkage"),
 "rev-C05-fix":  ("C05", "C05-dependency-all-started"),
 # /repo aed7d1e (filter_ref on tuple components; fixes/C05-filter-ref-on-components.diff is that commit)
 "revert-aed7d1e": ("C05", "C05-filter-ref-on-components"),
}
# the coordinator's independent seeded changes (patch files)
SEED = {
 "seedpatch-C01-b-on-C01": ("C01", "/verif/seeded/C01-b/patch.diff"),
 "seedpatch-C01-b-on-C02": ("C02", "/verif/seeded/C01-b/patch.diff"),
 "seedpatch-C03-b": ("C03", "/verif/seeded/C03-b/patch.diff"),
 "seedpatch-C04-b": ("C04", "/verif/seeded/C04-b/patch.diff"),
 "seedpatch-C05-b": ("C05", "/verif/seeded/C05-b/patch.diff"),
 "seedpatch-C05-c": ("C05", "/verif/seeded/C05-c/patch.diff"),
 "seedpatch-C06-c": ("C06", "/verif/seeded/C06-c/patch.diff"),
 "seedpatch-C03-c": ("C03", "/verif/seeded/C03-c/patch.diff"),
 "seedpatch-C01-c": ("C01", "/verif/seeded/C01-c/patch.diff"),
 "seedpatch-C04-d": ("C04", "/verif/seeded/C04-d/patch.diff"),
 "seedpatch-C02-d-on-C02": ("C02", "/verif/seeded/C02-d/patch.diff"),
 "seedpatch-C02-d-on-C03": ("C03", "/verif/seeded/C02-d/patch.diff"),
 "seedpatch-C03-d": ("C03", "/verif/seeded/C03-d/patch.diff"),
 "seedpatch-C04-e": ("C04", "/verif/seeded/C04-e/patch.diff"),
 "seedpatch-C01-d": ("C01", "/verif/seeded/C01-d/patch.diff"),
 "seedpatch-C03-e": ("C03", "/verif/seeded/C03-e/patch.diff"),
 # round f (task-harness.md section 14)
 "seedpatch-C05-f": ("C05", "/verif/seeded/C05-f/patch.diff"),
 "seedpatch-C01-f": ("C01", "/verif/seeded/C01-f/patch.diff"),
 # round g (task-harness.md section 15)
 "seedpatch-C03-g": ("C03", "/verif/seeded/C03-g/patch.diff"),
 "seedpatch-C02-g": ("C02", "/verif/seeded/C02-g/patch.diff"),
 "seedpatch-C05-g": ("C05", "/verif/seeded/C05-g/patch.diff"),
 "seedpatch-C06-g": ("C06", "/verif/seeded/C06-g/patch.diff"),
 "seedpatch-C04-g": ("C04", "/verif/seeded/C04-g/patch.diff"),
 "seedpatch-C01-g": ("C01", "/verif/seeded/C01-g/patch.diff"),
 # round h (task-harness.md section 16)
 "seedpatch-C03-h": ("C03", "/verif/seeded/C03-h/patch.diff"),
 "seedpatch-C05-h": ("C05", "/verif/seeded/C05-h/patch.diff"),
 "seedpatch-C06-h": ("C06", "/verif/seeded/C06-h/patch.diff"),
 "seedpatch-C01-h": ("C01", "/verif/seeded/C01-h/patch.diff"),
 # caught by the random stream only before the fixed corpus family of section 16
 "seedpatch-C04-c": ("C04", "/verif/seeded/C04-c/patch.diff"),
 # round i (task-harness.md section 17)
 "seedpatch-C05-i": ("C05", "/verif/seeded/C05-i/patch.diff"),
 "seedpatch-C04-i": ("C04", "/verif/seeded/C04-i/patch.diff"),
 "seedpatch-C06-i": ("C06", "/verif/seeded/C06-i/patch.diff"),
}
ENV = dict(os.environ, GOFLAGS="-mod=mod", GOPROXY="off", GOSUMDB="off", GOTOOLCHAIN="local")
BASE = "go test -vet=off -count=1 ./bint/... ./eth/... ./jrpc2/... ./shovel/config/... ./shovel/glf/... ./wctx/... ./wos/... ./wslog/..."


def sh(cmd, **kw):
    p = subprocess.run(cmd, shell=True, stdout=subprocess.PIPE, stderr=subprocess.STDOUT, text=True, env=ENV, **kw)
    return p.returncode, "\n".join(l for l in p.stdout.splitlines() if "conda" not in l)


def run(name):
    shutil.rmtree(DST, ignore_errors=True)
    shutil.copytree(SRC, DST, ignore=shutil.ignore_patterns(".git"))
    try:
        if name in SEED:
            prop, pf = SEED[name]
            rc, out = sh(f"patch -p1 < {pf}", cwd=DST)
            if rc != 0:
                print(f"{name}: patch failed {out[:300]}")
                return
        elif name in REV:
            prop, fix = REV[name]
            rc, out = sh(f"patch -R -p1 < /verif/fixes/{fix}.diff", cwd=DST)
            if rc != 0:
                print(f"{name}: reverse patch failed {out[:300]}")
                return
        else:
            prop, path, old, new = M[name]
            olds, news = (old, new) if isinstance(old, list) else ([old], [new])
            src = open(os.path.join(DST, path)).read()
            for o, n in zip(olds, news):
                if src.count(o) != 1:
                    print(f"{name}: PATTERN matches {src.count(o)} times")
                    return
                src = src.replace(o, n)
            open(os.path.join(DST, path), "w").write(src)
        rc, out = sh("go build ./shovel/... ./dig/ ./jrpc2/ ./eth/", cwd=DST)
        if rc != 0:
            print(f"{name}: DOES NOT COMPILE\n{out[:800]}")
            return
        rc, out = sh(BASE, cwd=DST)
        base = "pass" if rc == 0 else "FAIL"
        rc, out = sh(f"cd /verif && VERIF_REPO={DST} bin/check {prop} --tier quick")
        v = [l for l in out.splitlines() if l.startswith(("VIOLATION", "OK ", "KNOWN"))]
        msg = ""
        try:
            rep = json.load(open(f"/verif/replays/{prop}_quick_1.json"))
            fi = rep.get("failing_input")
            if rc != 0 and fi:
                msg = f" || kind={fi.get('kind')} case={fi['desc'].get('name')} oracle={(fi.get('oracle_msg') or '')[:300]}"
            elif rc != 0:
                b = (rep.get("broken") or [{}])[0]
                msg = f" || broken {b.get('kind')}: {b.get('name')} {(b.get('detail') or '')[:200]}"
        except Exception as e:
            msg = f" || (no replay: {e})"
        print(f"{name}: exit={rc} baseline={base} {' | '.join(v)}{msg}", flush=True)
    finally:
        shutil.rmtree(DST, ignore_errors=True)


if __name__ == "__main__":
    want = sys.argv[1:] or [""]
    for k in list(REV) + list(M) + list(SEED):
        if any(k.startswith(w) for w in want):
            run(k)
