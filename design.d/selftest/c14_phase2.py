C="jrpc2/client.go"; E="eth/types.go"
SW='''	switch {
	case filter.UseReceipts:
		if err := c.receipts(ctx, url, bm, start, limit); err != nil {
			return nil, fmt.Errorf("getting receipts: %w", err)
		}
	case filter.UseLogs:
		if err := c.logs(ctx, url, filter, bm, start, limit); err != nil {
			return nil, fmt.Errorf("getting logs: %w", err)
		}
	}
	// traces come from their own request: a plan with receipts (or
	// logs) and traces needs both
	if filter.UseTraces {
		if err := c.traces(ctx, url, bm, start, limit); err != nil {
			return nil, fmt.Errorf("getting traces: %w", err)
		}
	}
'''
MUTANTS=[
 ("C14","P1-receipts-stops-copying-GasUsed",dict(edits=[(C,'''			tx.GasUsed = resps[i].Result[j].GasUsed
''','')])),
 ("C14","P2-json-tag-gasPrice-renamed",dict(edits=[(E,'`json:"gasPrice"`','`json:"gasprice"`')])),
 ("C14","P3-get-traces-merged-into-the-switch",dict(edits=[(C,SW,'''	switch {
	case filter.UseReceipts:
		if err := c.receipts(ctx, url, bm, start, limit); err != nil {
			return nil, fmt.Errorf("getting receipts: %w", err)
		}
	case filter.UseLogs:
		if err := c.logs(ctx, url, filter, bm, start, limit); err != nil {
			return nil, fmt.Errorf("getting logs: %w", err)
		}
	case filter.UseTraces:
		if err := c.traces(ctx, url, bm, start, limit); err != nil {
			return nil, fmt.Errorf("getting traces: %w", err)
		}
	}
''')])),
 ("C14","P4-get-first-switch-headers-case-before-blocks-case (benign)",dict(edits=[(C,'''	case filter.UseBlocks:
		blocks, err = c.bcache.get(c.nocache, ctx, url, start, limit, c.blocks)
		if err != nil {
			return nil, fmt.Errorf("getting blocks: %w", err)
		}
	case filter.UseHeaders:
		blocks, err = c.hcache.get(c.nocache, ctx, url, start, limit, c.headers)
		if err != nil {
			return nil, fmt.Errorf("getting headers: %w", err)
		}
''','''	case filter.UseHeaders:
		blocks, err = c.hcache.get(c.nocache, ctx, url, start, limit, c.headers)
		if err != nil {
			return nil, fmt.Errorf("getting headers: %w", err)
		}
	case filter.UseBlocks:
		blocks, err = c.bcache.get(c.nocache, ctx, url, start, limit, c.blocks)
		if err != nil {
			return nil, fmt.Errorf("getting blocks: %w", err)
		}
''')])),
 ("C14","P5-receipt-json-tag-status-renamed",dict(edits=[(C,'`json:"status"`','`json:"Status"`')])),
 ("C14","P6-logs-add-stops-copying-address",dict(edits=[(E,'''	l.Address.Write(other.Address)
''','')])),
]
