G="shovel/glf/filter.go"; C="jrpc2/client.go"; D="dig/dig.go"; E="eth/types.go"
MUTANTS=[
 ("C14","N1-delete-tx_input-from-block-table",dict(edits=[(G,'''		"tx_to",
		"tx_input",
		"tx_value",''','''		"tx_to",
		"tx_value",''')])),
 ("C14","N2-delete-tx_status-from-receipt-table",dict(edits=[(G,'''		"tx_status",
		"tx_gas_used",''','''		"tx_gas_used",''')])),
 ("C14","N3-reorder-if-blocks-trace-block-first-removes-nothing?",dict(edits=[(G,'''	if any(needs, difference(receipt, block, log)) {
		f.UseReceipts = true
		needs = difference(needs, receipt)
	}
	if any(needs, difference(log, block)) {
		f.UseLogs = true
		needs = difference(needs, log)
	}''','''	if any(needs, difference(log, block)) {
		f.UseLogs = true
		needs = difference(needs, log)
	}
	if any(needs, difference(receipt, block, log)) {
		f.UseReceipts = true
		needs = difference(needs, receipt)
	}''')])),
 ("C14","N4-get-switch-logs-before-receipts",dict(edits=[(C,'''	case filter.UseReceipts:
		if err := c.receipts(ctx, url, bm, start, limit); err != nil {
			return nil, fmt.Errorf("getting receipts: %w", err)
		}
	case filter.UseLogs:
		if err := c.logs(ctx, url, filter, bm, start, limit); err != nil {
			return nil, fmt.Errorf("getting logs: %w", err)
		}
	}''','''	case filter.UseLogs:
		if err := c.logs(ctx, url, filter, bm, start, limit); err != nil {
			return nil, fmt.Errorf("getting logs: %w", err)
		}
	case filter.UseReceipts:
		if err := c.receipts(ctx, url, bm, start, limit); err != nil {
			return nil, fmt.Errorf("getting receipts: %w", err)
		}
	}''')])),
 ("C07","N4b-get-switch-logs-before-receipts (C07 check)",dict(edits=[(C,'''	case filter.UseReceipts:
		if err := c.receipts(ctx, url, bm, start, limit); err != nil {
			return nil, fmt.Errorf("getting receipts: %w", err)
		}
	case filter.UseLogs:
		if err := c.logs(ctx, url, filter, bm, start, limit); err != nil {
			return nil, fmt.Errorf("getting logs: %w", err)
		}
	}''','''	case filter.UseLogs:
		if err := c.logs(ctx, url, filter, bm, start, limit); err != nil {
			return nil, fmt.Errorf("getting logs: %w", err)
		}
	case filter.UseReceipts:
		if err := c.receipts(ctx, url, bm, start, limit); err != nil {
			return nil, fmt.Errorf("getting receipts: %w", err)
		}
	}''')])),
 ("C14","N5-receipts-stops-copying-gas-used",dict(edits=[(C,'''			tx.GasUsed = resps[i].Result[j].GasUsed
''','')])),
 ("C14","N6-get-label-tx_gas_used-reads-GasPrice",dict(edits=[(D,'''		return lwc.t.GasUsed''','''		return &lwc.t.GasPrice''')])),
 ("C14","N7-tx-json-tag-gasPrice-misspelled",dict(edits=[(E,'''`json:"gasPrice"`''','''`json:"gasprice"`''')])),
 ("C14","N8-delete-log_idx-from-log-table",dict(edits=[(G,'''		"log_addr",
		"log_idx",
	}
	trace''','''		"log_addr",
	}
	trace''')])),
 ("C14","N9-traces-stops-writing-action-idx",dict(edits=[(C,'''				ta.Idx = uint64(i)
''','')])),
 ("C14","R1-reverse-C14-1-glf-missing-fields",dict(reverse="/verif/fixes/C14-1-glf-missing-fields.diff")),
 ("C14","R2-reverse-C14-2-get-receipts-and-traces",dict(reverse="/verif/fixes/C14-2-get-receipts-and-traces.diff")),
 ("C07","R2b-reverse-C14-2 (C07 check)",dict(reverse="/verif/fixes/C14-2-get-receipts-and-traces.diff")),
]
