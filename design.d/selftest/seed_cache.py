MUTANTS=[
 ("C14","S3-headers-served-through-block-cache (seeded/C14-c) on C14",dict(patch="/verif/seeded/C14-c/patch.diff")),
 ("C07","S4-cache-keeps-rejected-slice (seeded/C07-c) on C07",dict(patch="/verif/seeded/C07-c/patch.diff")),
]
MUTANTS.append(("C14","S5-receipts-null-result-accepted (seeded/C14-d) on C14",dict(patch="/verif/seeded/C14-d/patch.diff")))
MUTANTS.append(("C14","S6-required-field-skipped-when-column-declared (seeded/C14-e) on C14",dict(patch="/verif/seeded/C14-e/patch.diff")))
MUTANTS.append(("C07","S7-cache-reuses-longer-segment (seeded/C07-f) on C07",dict(patch="/verif/seeded/C07-f/patch.diff")))
MUTANTS.append(("C07","S8-decode-wraps-17-18-digit-quantities (seeded/C07-g) on C07",dict(patch="/verif/seeded/C07-g/patch.diff")))
MUTANTS.append(("C14","S9-filter-plans-from-column-names (seeded/C14-g) on C14",dict(patch="/verif/seeded/C14-g/patch.diff")))
MUTANTS.append(("C07","S10-error-exists-only-for-negative-codes (seeded/C07-h) on C07",dict(patch="/verif/seeded/C07-h/patch.diff")))
