C="jrpc2/client.go"
EDIT=[(C,'''			tx.PrecompHash.Write(resps[i].Result[j].TxHash)
			tx.Type.Write(byte(resps[i].Result[j].TxType))
			tx.From.Write(resps[i].Result[j].TxFrom)
			tx.To.Write(resps[i].Result[j].TxTo)
''','''			if len(tx.PrecompHash) == 0 {
				tx.PrecompHash.Write(resps[i].Result[j].TxHash)
				tx.Type.Write(byte(resps[i].Result[j].TxType))
				tx.From.Write(resps[i].Result[j].TxFrom)
				tx.To.Write(resps[i].Result[j].TxTo)
			}
''')]
MUTANTS=[
 ("C14","S2-receipts-writes-hash-type-from-to-only-when-hash-empty (C14)",dict(edits=EDIT)),
 ("C07","S2-receipts-writes-hash-type-from-to-only-when-hash-empty (C07)",dict(edits=EDIT)),
]
